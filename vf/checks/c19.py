"""C19 Script evaluation agrees with Bitcoin consensus for the implemented opcodes.

E1 enumeration over programs.  Three interpreters take part:

  * the library (Script.evaluate / Stack.op_*)                                  - the thing checked
  * the reference interpreter vf/ref/interp.py (Bitcoin Core semantics)         - the oracle
  * a small *model* interpreter in this module with a switch:
        lib=False  consensus semantics (cross-checked against the oracle on every case; a
                   disagreement is a broken check, exit 2)
        lib=True   the library's documented wrong semantics (reversed operand order in OP_SUB,
                   OP_TUCK acting as OP_OVER, "only the empty string is false", ...)
    The model is only used to *name* a deviation: when library != oracle, the deviation is attributed
    to the named per-opcode deviations that fired in the lib=True run if and only if the library's
    observation equals the lib=True prediction for this exact input; otherwise it is `unexplained`.
"""
import hashlib
import itertools
import logging

from vf.ref import codec, secp, interp
from vf.ref.codec import num_decode, num_encode, cast_to_bool
from vf.ref.tx import RTx

ID = 'C19'
LEVEL = 'exploration'
RULE = ('bounded exhaustive enumeration of script programs, each executed by the library and by the reference '
        'consensus interpreter: (a) every implemented opcode x every initial stack of depth <= 3 over a 13-item '
        'boundary alphabet (plus depth 4-6 stacks over a 4-item alphabet for the deep stack opcodes), through '
        'Stack.op_xxx() directly and through Script([pushes..., opcode]).evaluate(); (b) every program of length '
        '<= 3 (quick) / <= 4 (thorough) over a 58-symbol program alphabet, plus all longer programs over a reduced '
        'alphabet and seed-positioned windows (two seed-chosen leading pushes followed by every 3-symbol suffix); '
        '(c) nested IF/NOTIF/ELSE/ENDIF trees to depth 3 (incl. double ELSE) with every assignment of condition '
        'values from {"",01,00,80} (quick: {"",01,00} for the 3-condition trees); (d) P2PK / P2PKH / bare and P2SH multisig m-of-n<=3 spends with reference-made '
        'signatures (every m-tuple over the n valid signatures and a foreign one, signature/key encoding edge '
        'classes, dummy variants) and CLTV/CSV templates over boundary operand/locktime/sequence values; (e) histories '
        'on ONE Script object: P2PK / P2PKH / bare / P2SH multisig spends built by {Script(cmds, message in None|A|B), '
        'parse_bytes(raw, message=...), unlock + lock with every pair of messages} followed by every sequence of <= 2 '
        '(thorough 3) operations from {evaluate(message in None|A|B, env_data variant), read .stack, append to .stack, '
        '+ Script([], message=A|B)}: every evaluate must give the reference verdict for the message/env_data the call '
        'is documented to use (argument if not None, else the attribute read just before the call), and non-signature '
        'programs evaluated 2 (3) times on one object (the stack starts empty, commands are not consumed). Every '
        'program P is evaluated twice by the library (P and P+[OP_1], the second exposing "ran to completion" and '
        'the full final stack); compared: valid/invalid and the remaining stack. A case is non-trivial when the '
        'reference ran the program to completion (so a full final stack was compared) or the verdicts differ; '
        'distinct = distinct program (or (opcode, stack) pair). For sub-space prog with length >= 4 only one key per '
        'batch (2-symbol prefix) is kept in distinct_nontrivial (conservative); the exact per-program count is in '
        'coverage.nontrivial_programs.')
ASSUMPTIONS = [
    'oracle: vf/ref/interp.py (Bitcoin Core interpreter.cpp semantics, consensus flags P2SH, DERSIG, NULLDUMMY, CLTV, '
    'CSV), validated by its self-test; pure-Python secp256k1 in vf/ref/secp.py; hashlib',
    'the model interpreter of this module in consensus mode is compared with the oracle on every case (mismatch = '
    'broken check, exit 2); in library mode it only names deviations and can never hide one (a deviation it does '
    'not predict exactly is reported as unexplained)',
    'deviations for which a repair is proposed (REPAIRABLE) may individually be absent: a library observation that '
    'equals the model with some of them switched back to consensus behaviour is still explained (by the remaining '
    'named deviations); pinned deviations are never switched',
    'an exception escaping Script.evaluate() / Stack.op_xxx() is counted as rejection of the script (not as a '
    'deviation when consensus rejects too)',
    'only opcodes that have a Stack.op_* method (plus pushes and IF/NOTIF/ELSE/ENDIF) are in the alphabets; '
    'OP_TOALTSTACK/FROMALTSTACK/CODESEPARATOR/disabled/reserved opcodes are outside "implemented opcodes"',
    'signature checks are made over one fixed 32-byte message (Script.evaluate(message=...)); sighash computation '
    'is the subject of C01, transaction-level verification of C02',
    'consensus resource limits (201 ops, 520-byte pushes, 1000 stack items) are not reachable inside the bounds',
    'after a failed evaluation the content of Script.stack is not compared (consensus defines no stack then)',
]

T, F = b'\x01', b''

# ----------------------------------------------------------------------------------------- opcodes
OPC = dict(
    OP_0=0, OP_1NEGATE=0x4f, OP_1=0x51, OP_2=0x52, OP_3=0x53, OP_16=0x60, OP_NOP=0x61, OP_IF=0x63, OP_NOTIF=0x64,
    OP_ELSE=0x67, OP_ENDIF=0x68, OP_VERIFY=0x69, OP_RETURN=0x6a, OP_2DROP=0x6d, OP_2DUP=0x6e, OP_3DUP=0x6f,
    OP_2OVER=0x70, OP_2ROT=0x71, OP_2SWAP=0x72, OP_IFDUP=0x73, OP_DEPTH=0x74, OP_DROP=0x75, OP_DUP=0x76,
    OP_NIP=0x77, OP_OVER=0x78, OP_PICK=0x79, OP_ROLL=0x7a, OP_ROT=0x7b, OP_SWAP=0x7c, OP_TUCK=0x7d, OP_SIZE=0x82,
    OP_EQUAL=0x87, OP_EQUALVERIFY=0x88, OP_1ADD=0x8b, OP_1SUB=0x8c, OP_NEGATE=0x8f, OP_ABS=0x90, OP_NOT=0x91,
    OP_0NOTEQUAL=0x92, OP_ADD=0x93, OP_SUB=0x94, OP_BOOLAND=0x9a, OP_BOOLOR=0x9b, OP_NUMEQUAL=0x9c,
    OP_NUMEQUALVERIFY=0x9d, OP_NUMNOTEQUAL=0x9e, OP_LESSTHAN=0x9f, OP_GREATERTHAN=0xa0, OP_LESSTHANOREQUAL=0xa1,
    OP_GREATERTHANOREQUAL=0xa2, OP_MIN=0xa3, OP_MAX=0xa4, OP_WITHIN=0xa5, OP_RIPEMD160=0xa6, OP_SHA1=0xa7,
    OP_SHA256=0xa8, OP_HASH160=0xa9, OP_HASH256=0xaa, OP_CHECKSIG=0xac, OP_CHECKSIGVERIFY=0xad,
    OP_CHECKMULTISIG=0xae, OP_CHECKMULTISIGVERIFY=0xaf, OP_NOP1=0xb0, OP_CHECKLOCKTIMEVERIFY=0xb1,
    OP_CHECKSEQUENCEVERIFY=0xb2, OP_NOP4=0xb3, OP_NOP5=0xb4, OP_NOP6=0xb5, OP_NOP7=0xb6, OP_NOP8=0xb7, OP_NOP9=0xb8,
    OP_NOP10=0xb9)
NAME = {v: k for k, v in OPC.items()}
for _k in range(0x51, 0x61):
    NAME.setdefault(_k, 'OP_%d' % (_k - 0x50))
C = {k[3:]: v for k, v in OPC.items()}

# Stack method called for an opcode by a *direct* call (the four comparison methods carry another name than the
# opcode, which is exactly why Script.evaluate cannot dispatch them)
DIRECT_METHOD = {0x9f: 'op_numlessthan', 0xa0: 'op_numgreaterthan', 0xa1: 'op_numlessthanorequal',
                 0xa2: 'op_numgreaterthanorequal'}

# opcodes checked one by one in sub-spaces op_direct / op_eval (no environment needed)
PLAIN_OPS = [c for n, c in sorted(OPC.items(), key=lambda kv: kv[1]) if c > 0x60 and c not in (
    0x63, 0x64, 0x67, 0x68, 0xac, 0xad, 0xae, 0xaf, 0xb1, 0xb2)]


class Fail(Exception):
    """The script fails here (consensus error; library: method returns False or raises)."""


class HarnessBug(Exception):
    pass


class Fired(set):
    """Named deviations that fired in a library-mode run.  `disabled`: deviations switched back to consensus
    behaviour (used to recognise a tree in which some of the repairable deviations have been repaired)."""

    def __init__(self, disabled=()):
        set.__init__(self)
        self.disabled = frozenset(disabled)


# ------------------------------------------------------------------------------- model primitives
def _need(st, n):
    if len(st) < n:
        raise Fail('stack')


def _cnum(b, maxlen=4):
    if len(b) > maxlen:
        raise Fail('num overflow')
    return num_decode(b)


def _b(x):
    return T if x else F


def _try(fn, st):
    s = list(st)
    try:
        fn(s)
    except Fail:
        return None
    return s


def _dual(st, lib, fired, cons_fn, lib_fn, dev):
    """Apply cons_fn or lib_fn (both: list -> None, may raise Fail) to st; when lib, note whether they differ."""
    if not lib:
        cons_fn(st)
        return
    c = _try(cons_fn, st)
    l = _try(lib_fn, st)
    if c != l:
        d = dev(st) if callable(dev) else dev
        if d in fired.disabled:
            l = c
        else:
            fired.add(d)
    if l is None:
        raise Fail('lib')
    st[:] = l


def _unary(f):
    def cons(st):
        _need(st, 1)
        n = _cnum(st.pop())
        st.append(num_encode(f(n)))
    return cons


def _binary(f):
    def cons(st):
        _need(st, 2)
        b = _cnum(st[-1])
        a = _cnum(st[-2])
        del st[-2:]
        st.append(num_encode(f(a, b)))
    return cons


def _lib_arith(st, k):
    """Stack.is_arithmetic(k): IndexError when fewer than k items, False when one of the top k is longer than 4."""
    _need(st, k)
    for i in st[-k:]:
        if len(i) > 4:
            raise Fail('not arithmetic')


# --- library-model variants (the documented wrong behaviours), each next to its consensus twin
def _lib_not(st):
    _lib_arith(st, 1)
    st.append(T if st.pop() == b'' else F)


def _lib_0notequal(st):
    _lib_arith(st, 1)
    st.append(F if st.pop() == b'' else T)


def _lib_sub(st):
    _lib_arith(st, 2)
    top = num_decode(st.pop())
    second = num_decode(st.pop())
    st.append(num_encode(top - second))


def _lib_boolop(isand):
    def f(st):
        _lib_arith(st, 2)
        a = st.pop() != b''
        b = st.pop() != b''
        st.append(_b((a and b) if isand else (a or b)))
    return f


def _lib_byteseq(negate):
    def f(st):
        _lib_arith(st, 2)
        eq = st.pop() == st.pop()
        st.append(_b(eq != negate))
    return f


def _lib_numequalverify(st):
    _need(st, 2)
    if any(len(i) > 4 for i in st[-2:]):
        # op_numequal() returned False without touching the stack; its result is ignored and op_verify()
        # consumes whatever is on top
        if st.pop() == b'':
            raise Fail('verify')
        return
    eq = st.pop() == st.pop()
    if not eq:
        raise Fail('verify')


def _dev_numequalverify(st):
    if len(st) >= 2 and any(len(i) > 4 for i in st[-2:]):
        return 'op_numequalverify|oversize_operand_check_ignored'
    return 'op_numequalverify|compares_bytes_not_numbers'


def _lib_cmp(f):
    def g(st):
        _lib_arith(st, 2)
        top = num_decode(st.pop())
        second = num_decode(st.pop())
        st.append(_b(f(top, second)))
    return g


def _cons_within(st):
    _need(st, 3)
    x = _cnum(st[-3])
    mn = _cnum(st[-2])
    mx = _cnum(st[-1])
    del st[-3:]
    st.append(_b(mn <= x < mx))


def _lib_within(st):
    _lib_arith(st, 3)
    top = num_decode(st.pop())       # consensus: max
    second = num_decode(st.pop())    # consensus: min
    third = num_decode(st.pop())     # consensus: x
    st.append(_b(second <= top < third))


def _cons_2swap(st):
    _need(st, 4)
    st[-4:] = st[-2:] + st[-4:-2]


def _lib_2swap(st):
    _need(st, 2)
    a = st.pop()
    b = st.pop()
    k = max(len(st) - 2, 0)
    st[k:k] = [a, b]


def _dev_2swap(st):
    return 'op_2swap|pair_reversed' if len(st) >= 4 else 'op_2swap|no_depth_check'


def _cons_pickroll(roll):
    def f(st):
        _need(st, 2)
        n = _cnum(st.pop())
        if n < 0 or n >= len(st):
            raise Fail('stack')
        v = st[-n - 1]
        if roll:
            del st[-n - 1]
        st.append(v)
    return f


def _lib_pickroll(roll):
    def f(st):
        _need(st, 1)
        n = num_decode(st.pop())
        idx = -n                       # python indexing: 0 is the bottom item, positive counts from the bottom
        if not (-len(st) <= idx < len(st)):
            raise Fail('index')
        v = st[idx]
        if roll:
            del st[idx]
        st.append(v)
    return f


def _dev_pickroll(name):
    def f(st):
        if not st:
            return name + '|unclassified'
        if len(st[-1]) > 4:
            return name + '|operand_longer_than_4_bytes_accepted'
        n = num_decode(st[-1])
        if n <= 0:
            return name + '|nonpositive_index_counts_from_bottom'
        return name + '|index_off_by_one'
    return f


def _cons_tuck(st):
    _need(st, 2)
    st.insert(-2, st[-1])


def _lib_tuck(st):
    _need(st, 2)
    st.append(st[-2])


def _cons_ifdup(st):
    _need(st, 1)
    if cast_to_bool(st[-1]):
        st.append(st[-1])


def _lib_ifdup(st):
    _need(st, 1)
    if st[-1] != b'':
        st.append(st[-1])


def _cons_verify(st):
    _need(st, 1)
    if not cast_to_bool(st[-1]):
        raise Fail('verify')
    st.pop()


def _lib_verify(st):
    _need(st, 1)
    if st.pop() == b'':
        raise Fail('verify')


def _cons_numequalverify(st):
    _binary(lambda a, b: int(a == b))(st)
    if not cast_to_bool(st[-1]):
        raise Fail('numequalverify')
    st.pop()


def _simple(fn):
    def h(st, lib, fired, env):
        fn(st)
    return h


def _dualop(cons_fn, lib_fn, dev):
    def h(st, lib, fired, env):
        _dual(st, lib, fired, cons_fn, lib_fn, dev)
    return h


def _s_2drop(st):
    _need(st, 2)
    del st[-2:]


def _s_2dup(st):
    _need(st, 2)
    st.extend(st[-2:])


def _s_3dup(st):
    _need(st, 3)
    st.extend(st[-3:])


def _s_2over(st):
    _need(st, 4)
    st.extend(st[-4:-2])


def _s_2rot(st):
    _need(st, 6)
    a = st[-6:-4]
    del st[-6:-4]
    st.extend(a)


def _s_depth(st):
    st.append(num_encode(len(st)))


def _s_drop(st):
    _need(st, 1)
    st.pop()


def _s_dup(st):
    _need(st, 1)
    st.append(st[-1])


def _s_nip(st):
    _need(st, 2)
    del st[-2]


def _s_over(st):
    _need(st, 2)
    st.append(st[-2])


def _s_rot(st):
    _need(st, 3)
    st.append(st.pop(-3))


def _s_swap(st):
    _need(st, 2)
    st[-2], st[-1] = st[-1], st[-2]


def _s_size(st):
    _need(st, 1)
    st.append(num_encode(len(st[-1])))


def _s_equal(st):
    _need(st, 2)
    b = st.pop()
    a = st.pop()
    st.append(_b(a == b))


def _s_equalverify(st):
    _need(st, 2)
    b = st.pop()
    a = st.pop()
    if a != b:
        raise Fail('equalverify')


def _s_return(st):
    raise Fail('op_return')


def _s_nop(st):
    pass


def _hashop(f):
    def g(st):
        _need(st, 1)
        st.append(f(st.pop()))
    return g


def _not_dispatched(name, cons_fn):
    """OP_LESSTHAN & co: Stack has op_numlessthan..., evaluate() looks for op_lessthan and raises."""
    def h(st, lib, fired, env):
        if not lib:
            cons_fn(st)
            return
        if _try(cons_fn, st) is not None:
            fired.add(name + '|evaluate_method_not_found')
        raise Fail('method not found')
    return h


OPS = {
    C['NOP']: _simple(_s_nop), C['VERIFY']: _dualop(_cons_verify, _lib_verify, 'op_verify|nonempty_zero_counts_as_true'),
    C['RETURN']: _simple(_s_return), C['2DROP']: _simple(_s_2drop), C['2DUP']: _simple(_s_2dup),
    C['3DUP']: _simple(_s_3dup), C['2OVER']: _simple(_s_2over),
    C['2ROT']: _simple(_s_2rot),
    C['2SWAP']: _dualop(_cons_2swap, _lib_2swap, _dev_2swap),
    C['IFDUP']: _dualop(_cons_ifdup, _lib_ifdup, 'op_ifdup|nonempty_zero_counts_as_true'),
    C['DEPTH']: _simple(_s_depth), C['DROP']: _simple(_s_drop), C['DUP']: _simple(_s_dup), C['NIP']: _simple(_s_nip),
    C['OVER']: _simple(_s_over),
    C['PICK']: _dualop(_cons_pickroll(False), _lib_pickroll(False), _dev_pickroll('op_pick')),
    C['ROLL']: _dualop(_cons_pickroll(True), _lib_pickroll(True), _dev_pickroll('op_roll')),
    C['ROT']: _simple(_s_rot), C['SWAP']: _simple(_s_swap),
    C['TUCK']: _dualop(_cons_tuck, _lib_tuck, 'op_tuck|acts_as_over'),
    C['SIZE']: _simple(_s_size), C['EQUAL']: _simple(_s_equal), C['EQUALVERIFY']: _simple(_s_equalverify),
    C['1ADD']: _simple(_unary(lambda n: n + 1)), C['1SUB']: _simple(_unary(lambda n: n - 1)),
    C['NEGATE']: _simple(_unary(lambda n: -n)), C['ABS']: _simple(_unary(abs)),
    C['NOT']: _dualop(_unary(lambda n: int(n == 0)), _lib_not, 'op_not|nonempty_zero_counts_as_nonzero'),
    C['0NOTEQUAL']: _dualop(_unary(lambda n: int(n != 0)), _lib_0notequal,
                                     'op_0notequal|nonempty_zero_counts_as_nonzero'),
    C['ADD']: _simple(_binary(lambda a, b: a + b)),
    C['SUB']: _dualop(_binary(lambda a, b: a - b), _lib_sub, 'op_sub|result==top-second'),
    C['BOOLAND']: _dualop(_binary(lambda a, b: int(a != 0 and b != 0)), _lib_boolop(True),
                       'op_booland|nonempty_zero_counts_as_true'),
    C['BOOLOR']: _dualop(_binary(lambda a, b: int(a != 0 or b != 0)), _lib_boolop(False),
                      'op_boolor|nonempty_zero_counts_as_true'),
    C['NUMEQUAL']: _dualop(_binary(lambda a, b: int(a == b)), _lib_byteseq(False),
                        'op_numequal|compares_bytes_not_numbers'),
    C['NUMEQUALVERIFY']: _dualop(_cons_numequalverify, _lib_numequalverify, _dev_numequalverify),
    C['NUMNOTEQUAL']: _dualop(_binary(lambda a, b: int(a != b)), _lib_byteseq(True),
                           'op_numnotequal|compares_bytes_not_numbers'),
    C['LESSTHAN']: _not_dispatched('op_lessthan', _binary(lambda a, b: int(a < b))),
    C['GREATERTHAN']: _not_dispatched('op_greaterthan', _binary(lambda a, b: int(a > b))),
    C['LESSTHANOREQUAL']: _not_dispatched('op_lessthanorequal', _binary(lambda a, b: int(a <= b))),
    C['GREATERTHANOREQUAL']: _not_dispatched('op_greaterthanorequal', _binary(lambda a, b: int(a >= b))),
    C['MIN']: _simple(_binary(min)), C['MAX']: _simple(_binary(max)),
    C['WITHIN']: _dualop(_cons_within, _lib_within, 'op_within|tests_min<=max<x'),
    C['RIPEMD160']: _simple(_hashop(codec.ripemd160)), C['SHA1']: _simple(_hashop(lambda v: hashlib.sha1(v).digest())),
    C['SHA256']: _simple(_hashop(codec.sha256)), C['HASH160']: _simple(_hashop(codec.hash160)),
    C['HASH256']: _simple(_hashop(codec.dsha256)),
}
for _c in (0xb0, 0xb3, 0xb4, 0xb5, 0xb6, 0xb7, 0xb8, 0xb9):
    OPS[_c] = _simple(_s_nop)

# direct-call models of the four comparison methods (Stack.op_numlessthan ...): operands reversed
DIRECT_OPS = {
    0x9f: _dualop(_binary(lambda a, b: int(a < b)), _lib_cmp(lambda t, s: t < s), 'op_numlessthan|operands_reversed'),
    0xa0: _dualop(_binary(lambda a, b: int(a > b)), _lib_cmp(lambda t, s: t > s),
                  'op_numgreaterthan|operands_reversed'),
    0xa1: _dualop(_binary(lambda a, b: int(a <= b)), _lib_cmp(lambda t, s: t <= s),
                  'op_numlessthanorequal|operands_reversed'),
    0xa2: _dualop(_binary(lambda a, b: int(a >= b)), _lib_cmp(lambda t, s: t >= s),
                  'op_numgreaterthanorequal|operands_reversed'),
}


# ------------------------------------------------------------------- signature checks (model)
_VCACHE = {}


def _ecdsa(digest, r, s, pt):
    k = (digest, r, s, pt)
    if k not in _VCACHE:
        _VCACHE[k] = bool(secp.ecdsa_verify(int.from_bytes(digest, 'big'), r, s, pt))
    return _VCACHE[k]


def _cons_sigcheck(sig, pk, digest):
    """Consensus (DERSIG, no STRICTENC): 'fail' = script error, else True/False pushed."""
    if not sig:
        return False
    if not secp.is_strict_der(sig[:-1]):
        return 'fail'
    rs = secp.der_decode_strict(sig[:-1])
    pt = interp.decode_pub_lax(pk)
    if rs is None or pt is None:
        return False
    return _ecdsa(digest, rs[0], rs[1], pt)


def _lib_sigcheck(sig, pk, digest, fired, with_key_in_parse=True):
    """The library's Signature.parse_bytes + verify as documented: DER signature followed by one byte, or a bare
    64-byte r||s; public key 33/65 bytes (02/03/04) or a 32-byte *private* key; everything else raises, which
    aborts the script instead of pushing false."""
    cons = _cons_sigcheck(sig, pk, digest)
    res = 'fail'
    cause = None
    rs = None
    if len(sig) > 64 and sig[:1] == b'\x30':
        rs = secp.der_decode_strict(sig[:-1])
        cause = 'op_checksig|undecodable_signature_aborts_script'
    elif len(sig) == 64:
        rs = (int.from_bytes(sig[:32], 'big'), int.from_bytes(sig[32:], 'big'))
        cause = 'op_checksig|bare_64_byte_r_s_signature_accepted'
    else:
        cause = 'op_checksig|empty_signature_aborts_script' if not sig else \
            'op_checksig|undecodable_signature_aborts_script'
    if rs is not None and not (1 <= rs[0] < secp.N and 1 <= rs[1] < secp.N):
        rs = None
    if rs is not None:
        pt = None
        if len(pk) in (33, 65) and pk[0] in (2, 3, 4):
            pt = secp.decode_pub(pk)
            kcause = 'op_checksig|invalid_pubkey_aborts_script'
        elif len(pk) == 32:
            d = int.from_bytes(pk, 'big')
            pt = secp.pub(d) if 0 < d < secp.N else None
            kcause = 'op_checksig|32_byte_private_key_accepted_as_pubkey'
        elif len(pk) == 0:
            pt = 'random'              # HDKey(b'') generates a fresh random key: the signature never verifies
            kcause = None
        else:
            kcause = 'op_checksig|hybrid_pubkey_aborts_script' if len(pk) == 65 and pk[0] in (6, 7) else \
                'op_checksig|invalid_pubkey_aborts_script'
        if pt == 'random':
            res = False
        elif pt is not None:
            res = _ecdsa(digest, rs[0], rs[1], pt)
        if res != cons and (pt is None or len(pk) == 32):
            cause = kcause
    if res != cons:
        fired.add(cause or 'op_checksig|unclassified')
    return res


def _op_checksig(verify):
    def h(st, lib, fired, env):
        _need(st, 2)
        pk = st.pop()
        sig = st.pop()
        digest = env.get('digest') or b''
        r = _lib_sigcheck(sig, pk, digest, fired) if lib else _cons_sigcheck(sig, pk, digest)
        if r == 'fail':
            raise Fail('sig')
        if verify:
            if not r:
                raise Fail('checksigverify')
        else:
            st.append(_b(r))
    return h


def _cons_multisig(st, digest):
    _need(st, 1)
    n = _cnum(st.pop())
    if n < 0 or n > 20:
        raise Fail('pubkey count')
    _need(st, n + 1)
    keys = [st.pop() for _ in range(n)]            # keys[0] = last key of the script
    m = _cnum(st.pop())
    if m < 0 or m > n:
        raise Fail('sig count')
    _need(st, m + 1)
    sigs = [st.pop() for _ in range(m)]            # sigs[0] = last signature
    dummy = st.pop()
    ok = True
    ik = isig = 0
    while ok and isig < m:
        r = _cons_sigcheck(sigs[isig], keys[ik], digest)
        if r == 'fail':
            raise Fail('sig encoding')
        if r:
            isig += 1
        ik += 1
        if m - isig > n - ik:
            ok = False
    if dummy != b'':
        raise Fail('nulldummy')
    return ok


def _lib_multisig(st, digest, fired):
    """Stack.op_checkmultisig as documented (no count limits, optional dummy of any value)."""
    _need(st, 1)
    n = num_decode(st.pop())
    _need(st, max(n, 0) + 1)
    keys = [st.pop() for _ in range(max(n, 0))]
    m = num_decode(st.pop())
    _need(st, max(m, 0))
    sigs = [st.pop() for _ in range(max(m, 0))]
    if st:
        st.pop()
    cnt = 0
    for k in keys:
        if cnt >= len(sigs):
            raise Fail('index')                    # signatures[sigcount] IndexError (m == 0)
        r = _lib_sigcheck(sigs[cnt], k, digest, set())
        if r == 'fail':
            raise Fail('sig')
        if r:
            cnt += 1
            if cnt >= len(sigs):
                break
    return cnt == len(sigs)


def _dev_multisig(pre):
    """Name the cause of a local difference between consensus and library CHECKMULTISIG on stack `pre`."""
    try:
        n = num_decode(pre[-1])
        m = num_decode(pre[-2 - n])
        sigs = pre[-2 - n - m:-2 - n] if m else []
        below = pre[:len(pre) - 2 - n - m]
        keys = pre[-1 - n:-1]
    except IndexError:
        return 'op_checkmultisig|unclassified'
    if not below:
        return 'op_checkmultisig|missing_dummy_accepted'
    if below[-1] != b'':
        return 'op_checkmultisig|nonempty_dummy_accepted'
    if m == 0 and n > 0:
        return 'op_checkmultisig|zero_required_signatures_aborts_script'
    for s in sigs:
        if not (len(s) > 64 and s[:1] == b'\x30' and secp.is_strict_der(s[:-1])):
            return 'op_checkmultisig|signature_encoding_handled_as_in_op_checksig'
    for k in keys:
        if secp.decode_pub(k) is None:
            return 'op_checkmultisig|pubkey_encoding_handled_as_in_op_checksig'
    return 'op_checkmultisig|unclassified'


def _op_multisig(verify, evaluate_wrapper=True):
    def h(st, lib, fired, env):
        digest = env.get('digest') or b''
        if not lib:
            ok = _cons_multisig(st, digest)
            if verify:
                if not ok:
                    raise Fail('checkmultisigverify')
            else:
                st.append(_b(ok))
            return
        pre = list(st)
        c = list(st)
        try:
            cres = _cons_multisig(c, digest)
        except Fail:
            cres = None
            c = None
        l = list(st)
        try:
            lres = _lib_multisig(l, digest, fired)
        except Fail:
            lres = None
            l = None
        if (cres, c) != (lres, l):
            fired.add(_dev_multisig(pre))
        if lres is None:
            raise Fail('lib multisig')
        st[:] = l
        if not evaluate_wrapper:                  # direct Stack.op_checkmultisig[verify]
            if verify:
                if not lres:
                    raise Fail('verify')
            else:
                st.append(_b(lres))
            return
        # Script.evaluate: OP_CHECKMULTISIG = op_checkmultisig; op_verify; push env_data['redeemscript'],
        # OP_CHECKMULTISIGVERIFY = op_checkmultisigverify; push env_data['redeemscript']
        rs = env.get('redeemscript')
        if not lres:
            if not verify and cres is False:
                fired.add('op_checkmultisig|evaluate_verifies_and_pushes_env_redeemscript')
            raise Fail('verify')
        if rs is None:
            fired.add('op_checkmultisig|evaluate_fails_without_env_redeemscript')
            raise Fail('KeyError redeemscript')
        fired.add('op_checkmultisig|evaluate_verifies_and_pushes_env_redeemscript')
        st.append(rs)
    return h


# --------------------------------------------------------------------- locktime opcodes (model)
LT_THRESHOLD = 500000000


def _cons_locktime_ok(n, txlock, seq):
    if not ((txlock < LT_THRESHOLD and n < LT_THRESHOLD) or (txlock >= LT_THRESHOLD and n >= LT_THRESHOLD)):
        return False
    if n > txlock:
        return False
    return seq != 0xffffffff


def _cons_sequence_ok(n, seq, version):
    if version < 2:
        return False
    if seq & (1 << 31):
        return False
    mask = (1 << 22) | 0xffff
    a, b = seq & mask, n & mask
    if not ((a < (1 << 22) and b < (1 << 22)) or (a >= (1 << 22) and b >= (1 << 22))):
        return False
    return b <= a


def _op_cltv(st, lib, fired, env):
    def cons(s):
        _need(s, 1)
        n = _cnum(s[-1], 5)
        if n < 0:
            raise Fail('negative')
        if not _cons_locktime_ok(n, env['locktime'], env['sequence']):
            raise Fail('locktime')

    def libf(s):
        txl = env.get('locktime')
        seq = env['sequence']
        if not txl:
            raise Fail('no tx locktime')
        if seq == 0xffffffff:
            raise Fail('final')
        _need(s, 1)
        n = num_decode(s[-1])
        if n < 0:
            raise Fail('negative')
        if n < 50000000 < txl or n > 50000000 > txl:
            raise Fail('type')
        if txl < n:
            raise Fail('locktime')

    def dev(s):
        if not s:
            return 'op_checklocktimeverify|unclassified'
        if len(s[-1]) > 5:
            return 'op_checklocktimeverify|operand_longer_than_5_bytes_accepted'
        n = num_decode(s[-1])
        txl = env.get('locktime')
        if not txl:
            return 'op_checklocktimeverify|tx_locktime_0_always_fails'
        # what the library would answer with the threshold 500000000 and a correct type test
        fixed = n >= 0 and env['sequence'] != 0xffffffff and _cons_locktime_ok(n, txl, 0)
        c = _try(cons, s) is not None
        if fixed == c:
            return 'op_checklocktimeverify|type_threshold_50000000_strict'
        return 'op_checklocktimeverify|unclassified'
    _dual(st, lib, fired, cons, libf, dev)


def _op_csv(st, lib, fired, env):
    def cons(s):
        _need(s, 1)
        n = _cnum(s[-1], 5)
        if n < 0:
            raise Fail('negative')
        if not (n & (1 << 31)):
            if not _cons_sequence_ok(n, env['sequence'], env['version']):
                raise Fail('sequence')

    def libf(s):
        env['sequence'], env['version']        # evaluate() reads both keys; the method then returns a truthy object
    _dual(st, lib, fired, cons, libf, 'op_checksequenceverify|not_implemented_always_passes')


OPS[0xac] = _op_checksig(False)
OPS[0xad] = _op_checksig(True)
OPS[0xae] = _op_multisig(False)
OPS[0xaf] = _op_multisig(True)
OPS[0xb1] = _op_cltv
OPS[0xb2] = _op_csv
DIRECT_OPS[0xae] = _op_multisig(False, evaluate_wrapper=False)
DIRECT_OPS[0xaf] = _op_multisig(True, evaluate_wrapper=False)


# ---------------------------------------------------------------------------- model interpreter
def _push_of(c):
    if c == 0:
        return b''
    if c == 0x4f:
        return b'\x81'
    if 0x51 <= c <= 0x60:
        return num_encode(c - 0x50)
    return None


def model_run(prog, lib, env=None, disabled=(), init=()):
    """(ok, stack, fired).  prog: list of int (opcode) / bytes (pushed data); init: initial stack."""
    env = env or {}
    fired = Fired(disabled)
    st = list(init)
    try:
        if lib:
            _run_lib(list(prog), st, fired, env)
        else:
            _run_cons(prog, st, env)
    except Fail:
        return False, st, fired
    except KeyError:
        if lib:
            return False, st, fired          # env_data key missing: KeyError inside evaluate()'s try -> False
        raise
    return True, st, fired


def _run_cons(prog, st, env):
    vf = []
    for c in prog:
        fexec = all(vf)
        if not isinstance(c, int):
            if fexec:
                st.append(bytes(c))
            continue
        if not (fexec or 0x63 <= c <= 0x68):
            continue
        p = _push_of(c)
        if p is not None:
            st.append(p)
        elif c in (0x63, 0x64):
            val = False
            if fexec:
                _need(st, 1)
                val = cast_to_bool(st.pop())
                if c == 0x64:
                    val = not val
            vf.append(val)
        elif c == 0x67:
            if not vf:
                raise Fail('unbalanced')
            vf[-1] = not vf[-1]
        elif c == 0x68:
            if not vf:
                raise Fail('unbalanced')
            vf.pop()
        elif c in OPS:
            OPS[c](st, False, None, env)
        else:
            raise Fail('bad opcode')
    if vf:
        raise Fail('unbalanced')


def _run_lib(cmds, st, fired, env):
    """Script.evaluate as documented: a command queue; OP_IF scans ahead for its OP_ELSE/OP_ENDIF, keeps the taken
    branch and drops the other; a second OP_ELSE of the same OP_IF does not toggle back."""
    while cmds:
        c = cmds.pop(0)
        if not isinstance(c, int):
            st.append(bytes(c))
            continue
        p = _push_of(c)
        if p is not None:
            st.append(p)
        elif c in (0x63, 0x64):
            if c == 0x64:
                _need(st, 1)
                st.append(T if num_decode(st.pop()) == 0 else b'\x00')
            branches = [[]]
            found = False
            depth = 1
            while cmds:
                item = cmds.pop(0)
                if isinstance(item, int) and item in (0x63, 0x64):
                    depth += 1
                    branches[-1].append(item)
                elif isinstance(item, int) and depth == 1 and item == 0x67:
                    branches.append([])
                elif isinstance(item, int) and item == 0x68:
                    if depth == 1:
                        found = True
                        break
                    depth -= 1
                    branches[-1].append(item)
                else:
                    branches[-1].append(item)
            if not found:
                raise Fail('no endif')
            _need(st, 1)
            truth = num_decode(st.pop()) != 0
            true_items = branches[0]
            false_items = [x for b in branches[1:] for x in b]
            if len(branches) > 2:
                if 'op_if|second_else_does_not_toggle_back' in fired.disabled:
                    true_items = [x for b in branches[0::2] for x in b]
                    false_items = [x for b in branches[1::2] for x in b]
                else:
                    fired.add('op_if|second_else_does_not_toggle_back')
            cmds[:0] = true_items if truth else false_items
        elif c in OPS:
            OPS[c](st, True, fired, env)
        else:
            raise Fail('method not found')      # OP_ELSE / OP_ENDIF outside OP_IF, unimplemented opcodes


def ser(prog):
    out = b''
    for c in prog:
        out += bytes([c]) if isinstance(c, int) else codec.push(bytes(c))
    return out


def show(prog):
    return ' '.join((NAME.get(c, '0x%02x' % c) if isinstance(c, int) else ('<%s>' % (
        c.hex() if len(c) <= 6 else c.hex()[:8] + '..%dB' % len(c)))) for c in prog)


def hexs(st):
    return [x.hex() if len(x) <= 24 else x.hex()[:16] + '..%dB' % len(x) for x in st]


# -------------------------------------------------------------------------- library observation
_LIB = {}


def _lib():
    if not _LIB:
        import bitcoinlib.scripts as S
        logging.getLogger('bitcoinlib').setLevel(logging.CRITICAL)
        S._logger.disabled = True            # "Stack evaluate error" warnings are not observations
        _LIB['S'] = S
    return _LIB['S']


def lib_eval(prog, msg=None, env=None):
    """('valid'|'invalid'|'raise'|'nonbool', remaining Script.stack)"""
    S = _lib()
    try:
        s = S.Script(list(prog))
        r = s.evaluate(message=msg, env_data=dict(env) if env is not None else None)
    except Exception as e:
        return 'raise', repr(e)[:120]
    if r is True:
        return 'valid', [bytes(x) for x in s.stack]
    if r is False:
        return 'invalid', None
    return 'nonbool', repr(r)[:80]


_RCACHE = {}


class RefChecker(interp.FixedDigestChecker):
    """Signatures over one fixed digest; locktime/sequence taken from a one-input reference transaction."""

    def __init__(self, digest, env):
        interp.FixedDigestChecker.__init__(self, digest or b'\x00' * 32)
        self.txc = None
        if env and 'sequence' in env:
            tx = RTx(env.get('version', 2), [{'txid': b'\x11' * 32, 'vout': 0, 'script': b'',
                                              'seq': env['sequence']}], [], env.get('locktime') or 0)
            self.txc = interp.TxChecker(tx, 0, 0)

    def check_sig(self, sig, pubkey, script_code, sigversion):
        # memoised call of the reference check (pure function of digest, signature and key)
        k = (self.digest, bytes(sig), bytes(pubkey))
        if k not in _RCACHE:
            _RCACHE[k] = interp.FixedDigestChecker.check_sig(self, sig, pubkey, script_code, sigversion)
        return _RCACHE[k]

    def check_locktime(self, n):
        return self.txc.check_locktime(n) if self.txc else False

    def check_sequence(self, n):
        return self.txc.check_sequence(n) if self.txc else False


def predictions(ok, stack, truth):
    """What evaluate(P) and evaluate(P+[OP_1]) must show for an interpreter result (ok, stack)."""
    vp = bool(ok and stack and truth(stack[-1]))
    return (vp, list(stack[:-1]) if vp else None), (bool(ok), list(stack) if ok else None)


def _lib_truth(b):
    return b != b''


END_DEV = 'script_end|nonempty_zero_counts_as_true'


def compare_program(prog, env=None, msg=None, cons_env=None):
    """Evaluate prog in library, oracle and (if needed) library-model.  Returns (devs, outcome, nontrivial)."""
    menv = dict(env or {})
    if msg is not None:
        menv['digest'] = msg
    ok_r, st_r, err = interp.run(ser(prog), [], RefChecker(msg, cons_env if cons_env is not None else env))
    cenv = dict(cons_env if cons_env is not None else (env or {}))
    if msg is not None:
        cenv['digest'] = msg
    ok_c, st_c, _ = model_run(prog, False, cenv)
    if ok_c != ok_r or (ok_r and st_c != st_r):
        raise HarnessBug('model(consensus) != reference interpreter for %s: %r vs %r' % (
            show(prog), (ok_c, hexs(st_c)), (ok_r, hexs(st_r), err)))
    obsP = lib_eval(prog, msg, env)
    obsQ = lib_eval(list(prog) + [0x51], msg, env)
    return classify(prog, menv, (ok_r, st_r, err), obsP, obsQ, env)


def classify(prog, menv, ref, obsP, obsQ=None, env=None, site='evaluate'):
    """Compare library observations of P (and optionally of P+[OP_1]) with the reference result `ref` = (ok, stack,
    error); name the deviation through the library model run in environment menv."""
    ok_r, st_r, err = ref
    expP, expQ = predictions(ok_r, st_r, cast_to_bool)
    outcome = 'valid' if expP[0] else ('false_top' if ok_r else 'error')
    pairs = [(obsP, expP)] + ([(obsQ, expQ)] if obsQ is not None else [])
    direction = _direction(*pairs)
    if direction is None:
        return [], outcome, ok_r
    explained, first = model_explains(prog, menv, obsP, obsQ)
    detail = {'program': show(prog), 'consensus': {'valid': expP[0], 'ran': ok_r, 'final_stack': hexs(st_r) if ok_r else err},
              'library': {'evaluate(P)': _obs_show(obsP)}}
    if obsQ is not None:
        detail['library']['evaluate(P+[OP_1])'] = _obs_show(obsQ)
    if env:
        detail['env_data'] = {k: (v.hex()[:20] if isinstance(v, bytes) else v) for k, v in env.items()}
    if explained:
        detail['named_deviations_in_this_program'] = explained
        devs = [{'sig': 'evaluate|%s|by|%s' % (direction, d), 'detail': detail} for d in explained]
    else:
        detail['library_model'] = {'valid': first[3][0], 'ran': first[0], 'final_stack': hexs(first[1]),
                                   'fired': first[2]}
        devs = [{'sig': '%s|%s|unexplained' % (site, direction), 'detail': detail}]
    return devs, 'dev:' + direction, True


def model_explains(prog, menv, obsP, obsQ=None, init=()):
    """(sorted named deviations, first model result): the deviations that fired in a library-model run whose
    predictions equal the observations, or (None, ...) when no such run exists."""
    first = None
    explained = None
    queue = [frozenset()]
    tried = set()
    while queue and len(tried) < 32:
        dis = queue.pop(0)
        if dis in tried:
            continue
        tried.add(dis)
        ok_m, st_m, fired = model_run(prog, True, menv, dis, init)
        truth = _lib_truth
        if ok_m and st_m and _lib_truth(st_m[-1]) != cast_to_bool(st_m[-1]):
            if END_DEV in dis:
                truth = cast_to_bool
            else:
                fired.add(END_DEV)
        mP, mQ = predictions(ok_m, st_m, truth)
        if first is None:
            first = (ok_m, st_m, sorted(fired), mP)
        pairs = [(obsP, mP)] + ([(obsQ, mQ)] if obsQ is not None else [])
        if _direction(*pairs) is None and (fired or init):
            explained = sorted(fired)
            break
        # the tree may have some of the repairable deviations repaired: switch fired ones back to consensus
        queue += [dis | {d} for d in sorted(fired) if d in REPAIRABLE]
    return explained, first


def _obs_show(o):
    return [o[0], hexs(o[1]) if isinstance(o[1], list) else o[1]]


def _direction(*pairs):
    """None when every observation matches its expectation, else 'accepts_invalid' (library says valid where
    the expectation says invalid: the safety direction) or 'differs' (rejects a valid script / other stack)."""
    out = None
    for obs, exp in pairs:
        valid = obs[0] == 'valid'
        if obs[0] == 'nonbool':
            return 'accepts_invalid' if not exp[0] else 'differs'
        if valid and not exp[0]:
            return 'accepts_invalid'
        if (not valid and exp[0]) or (valid and exp[0] and obs[1] != exp[1]):
            out = 'differs'
    return out


# ------------------------------------------------------------------------------------ alphabets
def blob20(seed):
    b = hashlib.sha256(b'C19 blob %d' % seed).digest()[:20]
    return b[:-1] + bytes([(b[-1] & 0x7e) | 1])


def items(seed):
    """Item alphabet of DESIGN.md (+ 5-byte negative zero)."""
    return [b'', b'\x00', b'\x80', b'\x01', b'\x81', b'\x02', b'\x7f', b'\xff', b'\x00\x80', b'\xff\xff\xff\x7f',
            b'\x00\x00\x00\x00\x01', b'\x00\x00\x00\x00\x80', blob20(seed)]


DEEP_ITEMS = [b'', b'\x01', b'\x02', b'\x03']
DEEP_OPS = [0x6f, 0x70, 0x71, 0x72, 0x79, 0x7a, 0x7b, 0xa5]


def stacks(alpha, dmin, dmax):
    for d in range(dmin, dmax + 1):
        for t in itertools.product(alpha, repeat=d):
            yield list(t)


PROG_ALPHA = [0x00, 0x51, 0x52, 0x4f, b'\x00', b'\x80'] + \
    [0x63, 0x64, 0x67, 0x68, 0x69, 0x6a] + \
    [0x6d, 0x6e, 0x6f, 0x70, 0x71, 0x72, 0x73, 0x74, 0x75, 0x76, 0x77, 0x78, 0x79, 0x7a, 0x7b, 0x7c, 0x7d, 0x82,
     0x87, 0x88] + \
    [0x8b, 0x8c, 0x8f, 0x90, 0x91, 0x92, 0x93, 0x94, 0x9a, 0x9b, 0x9c, 0x9d, 0x9e, 0x9f, 0xa0, 0xa1, 0xa2, 0xa3,
     0xa4, 0xa5] + \
    [0x61, 0xa6, 0xa7, 0xa8, 0xa9, 0xaa]
# reduced alphabet for the longer programs: the pushes, flow control and one opcode of every deviation family
RED_ALPHA = [0x00, 0x51, 0x52, 0x4f, b'\x00', 0x63, 0x64, 0x67, 0x68, 0x69, 0x73, 0x74, 0x76, 0x79, 0x7c, 0x7d, 0x87,
             0x91, 0x93, 0x94, 0x9c, 0xa3]


def _enc(prog):
    return [c if isinstance(c, int) else c.hex() for c in prog]


def _dec(prog):
    return [c if isinstance(c, int) else bytes.fromhex(c) for c in prog]


class Acc:
    """Collects per-batch results (first detail per sig)."""

    def __init__(self):
        self.devs = []
        self.seen = {}
        self.out = {}
        self.nt = []
        self.n = 0
        self.ntcount = 0

    def add(self, key, devs, outcome, nontrivial, keep_key=True):
        self.out[outcome] = self.out.get(outcome, 0) + 1
        if nontrivial:
            self.ntcount += 1
            if keep_key:
                self.nt.append(key)
        for d in devs:
            if d['sig'] in self.seen:
                old = self.seen[d['sig']]
                cnt = old['detail']['more_in_this_batch'] + 1
                # keep the clearest example: one where this is the only named deviation in the program
                if len(old['detail'].get('named_deviations_in_this_program', ())) > 1 and \
                        len(d['detail'].get('named_deviations_in_this_program', ())) == 1:
                    old['detail'] = dict(d['detail'])
                old['detail']['more_in_this_batch'] = cnt
            else:
                d['detail'] = dict(d['detail'], more_in_this_batch=0)
                self.seen[d['sig']] = d
                self.devs.append(d)

    def result(self, batch_key=None):
        nt = self.nt
        if batch_key is not None and self.ntcount:
            nt = [batch_key]
        return {'devs': self.devs, 'n': self.n, 'nt': nt, 'out': self.out, 'ret': self.ntcount}


# ------------------------------------------------------------------------------- sub-space workers
def _direct_call(code, stack, msg=None):
    """Call Stack.op_xxx directly.  ('ok', stack) | ('fail', why)"""
    S = _lib()
    name = DIRECT_METHOD.get(code) or NAME[code].lower()
    st = S.Stack(list(stack))
    try:
        m = getattr(st, name)
        r = m(msg) if msg is not None else m()
    except Exception as e:
        return 'fail', 'raises ' + type(e).__name__
    if r is True:
        return 'ok', [bytes(x) for x in st]
    if r is False:
        return 'fail', 'returns False'
    return 'nonbool', repr(r)[:60]


def _disable_sets(handler, stack, env):
    """[{}] + every non-empty set of repairable deviations that fire for this single opcode execution."""
    fired = Fired()
    try:
        handler(list(stack), True, fired, dict(env))
    except Fail:
        pass
    rep = sorted(d for d in fired if d in REPAIRABLE)
    out = [frozenset()]
    for k in range(1, len(rep) + 1):
        out += [frozenset(c) for c in itertools.combinations(rep, k)]
    return out


def compare_direct(code, stack, msg=None):
    env = {'digest': msg} if msg is not None else {}
    ok_r, st_r, err = interp.run(bytes([code]), stack, RefChecker(msg, None))
    handler = DIRECT_OPS.get(code) or OPS[code]
    c = list(stack)
    try:
        handler(c, False, None, env)
        ok_c = True
    except Fail:
        ok_c = False
    if ok_c != ok_r or (ok_r and c != st_r):
        raise HarnessBug('model(consensus) != reference for %s on %s' % (NAME[code], hexs(stack)))
    obs = _direct_call(code, stack, msg)
    exp = ('ok', st_r) if ok_r else ('fail', None)
    if obs[0] == exp[0] and (obs[0] != 'ok' or obs[1] == exp[1]):
        return [], 'ok' if ok_r else 'fail', ok_r
    if obs[0] == 'ok' and not ok_r:
        direction = 'succeeds_where_consensus_fails'
    elif obs[0] == 'ok':
        direction = 'wrong_result'
    elif obs[0] == 'nonbool':
        direction = 'returns_non_bool'
    else:
        direction = 'fails_where_consensus_succeeds'
    name = DIRECT_METHOD.get(code) or NAME[code].lower()
    mod = fired = None
    for dis in _disable_sets(handler, stack, env):
        fired = Fired(dis)
        l = list(stack)
        try:
            handler(l, True, fired, env)
            mod = ('ok', l)
        except Fail:
            mod = ('fail', None)
        if mod[0] == obs[0] and (obs[0] != 'ok' or mod[1] == obs[1]) and fired:
            break
    detail = {'method': 'Stack.%s' % name, 'stack': hexs(stack), 'consensus': hexs(st_r) if ok_r else 'fails: %s' % err,
              'library': hexs(obs[1]) if obs[0] == 'ok' else obs[1]}
    if mod[0] == obs[0] and (obs[0] != 'ok' or mod[1] == obs[1]) and fired:
        devs = [{'sig': 'Stack.%s|%s|%s' % (name, d.split('|', 1)[1], direction), 'detail': detail}
                for d in sorted(fired)]
    else:
        detail['library_model'] = [mod[0], hexs(mod[1]) if mod[1] else None, sorted(fired)]
        devs = [{'sig': 'Stack.%s|unexplained|%s' % (name, direction), 'detail': detail}]
    return devs, 'dev:' + direction, True


def sub_op_direct(case):
    """case = {'op': code, 'seed': s, 'deep': bool}: the opcode against every stack of the sub-space."""
    code = case['op']
    acc = Acc()
    if case.get('deep'):
        gen = stacks(DEEP_ITEMS, 4, 6)
    else:
        gen = stacks(items(case['seed']), 0, 3)
    for i, st in enumerate(gen):
        devs, out, nt = compare_direct(code, st)
        acc.n += 1
        acc.add('%02x:%s:%d' % (code, 'd' if case.get('deep') else 's', i), devs, out, nt)
    return acc.result()


def sub_op_eval(case):
    code = case['op']
    acc = Acc()
    if case.get('deep'):
        gen = stacks(DEEP_ITEMS, 4, 6)
    else:
        gen = stacks(items(case['seed']), 0, 3)
    for i, st in enumerate(gen):
        devs, out, nt = compare_program(list(st) + [code])
        acc.n += 2
        acc.add('%02x:%s:%d' % (code, 'd' if case.get('deep') else 's', i), devs, out, nt)
    return acc.result()


def sub_prog(case):
    """case = {'alpha': 'P'|'R', 'prefix': [symbol indices], 'lead': [hex pushes], 'tail': k}: every program
    lead + prefix + (k further symbols)."""
    alpha = PROG_ALPHA if case['alpha'] == 'P' else RED_ALPHA
    lead = [bytes.fromhex(x) for x in case.get('lead', [])]
    prefix = [alpha[i] for i in case['prefix']]
    acc = Acc()
    k = case['tail']
    keep = len(lead) + len(prefix) + k <= 3
    for t in itertools.product(range(len(alpha)), repeat=k):
        prog = lead + prefix + [alpha[i] for i in t]
        devs, out, nt = compare_program(prog)
        acc.n += 2
        acc.add('%s:%s:%s:%s' % (case['alpha'], ','.join(case.get('lead', [])), case['prefix'], t), devs, out, nt, keep)
    return acc.result(None if keep else '%s:%s:%s' % (case['alpha'], ','.join(case.get('lead', [])), case['prefix']))


# --- conditionals
COND_VALUES = [b'', b'\x01', b'\x00', b'\x80']
# conditions wider than a script number (a hash, a key or a signature is a usual IF/NOTIF condition): zero, negative
# zero and non-zero of 5 bytes, a 20-byte item; used for the shapes with at most 2 conditions
COND_WIDE = [b'\x00' * 5, b'\x00' * 4 + b'\x80', b'\x01' + b'\x00' * 4, bytes(range(1, 21)), b'\x00' * 19 + b'\x80']


def cond_shapes(depth):
    """Trees of exactly `depth` levels (kind, nelse, childpos, child): one IF/NOTIF per level, 0/1/2 ELSEs, the
    nested block placed in one of the nelse+1 branches."""
    if depth == 0:
        return [None]
    out = []
    subs = cond_shapes(depth - 1)
    for kind in (0x63, 0x64):
        for nelse in (0, 1, 2):
            for sub in subs:
                if sub is None:
                    out.append((kind, nelse, None, None))
                else:
                    for pos in range(nelse + 1):
                        out.append((kind, nelse, pos, sub))
    return out


def cond_exact_depth(t):
    return 0 if t is None else 1 + cond_exact_depth(t[3])


def cond_emit(tree, conds, inline, markers, level=0):
    kind, nelse, pos, child = tree
    out = []
    if inline:
        out.append(conds[level])
    out.append(kind)
    for seg in range(nelse + 1):
        if seg:
            out.append(0x67)
        if child is not None and (pos == seg or pos == 'both'):
            out += cond_emit(child, conds, inline, markers, level + 1)
        # distinct marker per branch (after the nested block, so that a nested IF consumes a condition value, not
        # the marker); in style 1 every second marker is OP_0, so the verdict depends on the branch taken
        out.append(0x00 if (markers[1] and markers[0] % 2 == 0) else 0x52 + markers[0])
        markers[0] += 1
    out.append(0x68)
    return out


def cond_program(tree, conds, inline, style=0):
    body = cond_emit(tree, conds, inline, [0, style])
    if inline:
        return body
    return list(reversed(conds)) + body


def sub_cond(case):
    """case = {'lo', 'hi', 'quick'}: a block of shapes x every condition assignment x {inline, upfront, inline with
    false markers}."""
    shapes = _cond_all()
    acc = Acc()
    for si in range(case['lo'], case['hi']):
        tree, nconds = shapes[si]
        values = COND_VALUES[:3] if case.get('quick') and nconds >= 3 else COND_VALUES
        if nconds <= (1 if case.get('quick') else 2):
            values = COND_VALUES + COND_WIDE
        for conds in itertools.product(values, repeat=nconds):
            for inline, style in ((True, 0), (False, 0), (True, 1)):
                prog = cond_program(tree, list(conds), inline, style)
                devs, out, nt = compare_program(prog)
                acc.n += 2
                acc.add('%d:%s:%d%d' % (si, ''.join(c.hex() or '-' for c in conds), inline, style), devs, out, nt)
    return acc.result()


COND_BODIES = [[], [0x51], [0x00], [0x52]]


def sub_condbody(case):
    """case = {'kind': OP_IF/OP_NOTIF, 'nelse': k, 'outer': bool}: every assignment of a body from COND_BODIES (empty,
    OP_1, OP_0, OP_2) to each of the k+1 branches - bodies that are EQUAL or EMPTY included, which distinct markers
    never are - x every condition value; outer = the whole conditional nested in the taken branch of an outer IF."""
    acc = Acc()
    kind, nelse = case['kind'], case['nelse']
    for bodies in itertools.product(range(len(COND_BODIES)), repeat=nelse + 1):
        for cond in COND_VALUES:
            prog = [cond, kind]
            for j, b in enumerate(bodies):
                if j:
                    prog.append(0x67)
                prog += COND_BODIES[b]
            prog.append(0x68)
            if case.get('outer'):
                prog = [b'\x01', 0x63] + prog + [0x67, 0x53, 0x68]
            devs, out, nt = compare_program(prog)
            acc.n += 2
            acc.add('%x:%d:%s:%s:%d' % (kind, nelse, ''.join(map(str, bodies)), cond.hex() or '-', bool(case.get('outer'))),
                    devs, out, nt)
    return acc.result()


_COND = []


def _cond_all():
    if not _COND:
        seen = []
        for d in (1, 2, 3):
            for t in cond_shapes(d):
                if cond_exact_depth(t) == d:
                    seen.append((t, d))
        # a nested block in both branches of IF..ELSE (2 condition values: outer, inner - both inner blocks use the
        # same value, only one of them runs)
        leaves = [t for t in cond_shapes(1)]
        for kind in (0x63, 0x64):
            for a in leaves:
                seen.append(((kind, 1, 'both', a), 2))
        _COND.extend(seen)
    return _COND


# --- spends
class Material:
    """Keys and signatures made with the reference implementation (never with the library)."""

    def __init__(self, seed):
        def h(tag):
            return hashlib.sha256(b'C19 %d %s' % (seed, tag)).digest()
        self.digest = h(b'message')
        self.other_digest = h(b'other message')
        self.d = [int.from_bytes(h(b'key %d' % i), 'big') % (secp.N - 1) + 1 for i in range(5)]
        self.P = [secp.pub(x) for x in self.d]
        self.pk = [secp.ser(p) for p in self.P]
        self.pku = [secp.ser(p, False) for p in self.P]

    def rs(self, i, digest=None, high=False):
        digest = digest or self.digest
        r, s = secp.ecdsa_sign_raw(self.d[i], int.from_bytes(digest, 'big'), secp.rfc6979_k(self.d[i], digest))
        lo = min(s, secp.N - s)
        return r, (secp.N - lo) if high else lo

    def sig(self, i, ht=1, **kw):
        r, s = self.rs(i, **kw)
        return secp.der_encode(r, s) + bytes([ht])

    def sig_kind(self, kind, i=0):
        if kind == 'ok':
            return self.sig(i)
        if kind == 'high_s':
            return self.sig(i, high=True)
        if kind.startswith('ht'):
            return self.sig(i, ht=int(kind[2:], 16))
        if kind == 'other_key':
            return self.sig(4)
        if kind == 'other_msg':
            return self.sig(i, digest=self.other_digest)
        if kind == 'empty':
            return b''
        if kind == 'no_hashtype':
            return self.sig(i)[:-1]
        if kind == 'garbage3':
            return b'\x01\x02\x03'
        if kind == 'raw64':
            r, s = self.rs(i)
            return r.to_bytes(32, 'big') + s.to_bytes(32, 'big')
        if kind == 'raw64_other_key':
            r, s = self.rs(4)
            return r.to_bytes(32, 'big') + s.to_bytes(32, 'big')
        if kind == 'der_padded_r':
            r, s = self.rs(i)
            good = secp.der_encode(r, s)
            rlen = good[3]
            rb = b'\x00' + good[4:4 + rlen]            # one superfluous leading zero byte: not strict DER
            rest = good[4 + rlen:]
            body = b'\x02' + bytes([len(rb)]) + rb + rest
            return b'\x30' + bytes([len(body)]) + body + b'\x01'
        raise ValueError(kind)

    def key_kind(self, kind, i=0):
        if kind == 'comp':
            return self.pk[i]
        if kind == 'uncomp':
            return self.pku[i]
        if kind == 'hybrid':
            u = self.pku[i]
            return bytes([6 + (u[-1] & 1)]) + u[1:]
        if kind == 'other':
            return self.pk[4]
        if kind == 'off_curve':
            x = 5
            while secp.lift_x(x, 0) is not None:
                x += 1
            return b'\x02' + x.to_bytes(32, 'big')
        if kind == 'short':
            return b'\x02\x03'
        if kind == 'empty':
            return b''
        if kind == 'priv32':
            return self.d[i].to_bytes(32, 'big')
        raise ValueError(kind)


_MAT = {}


def material(seed):
    if seed not in _MAT:
        _MAT[seed] = Material(seed)
    return _MAT[seed]


SIG_KINDS = ['ok', 'high_s', 'ht00', 'ht02', 'ht03', 'ht81', 'ht41', 'other_key', 'other_msg', 'empty', 'no_hashtype',
             'garbage3', 'raw64', 'raw64_other_key', 'der_padded_r']
KEY_KINDS = ['comp', 'uncomp', 'hybrid', 'other', 'off_curve', 'short', 'empty', 'priv32']
SIG_TAILS = {'checksig': [0xac], 'checksig_not': [0xac, 0x91], 'checksigverify_1': [0xad, 0x51],
             'checksig_verify_1': [0xac, 0x69, 0x51], 'checksig_0notequal': [0xac, 0x92]}


def sub_sig(case):
    """case = {'seed', 'sig': kind, 'key': kind}: P2PK-style and P2PKH programs + the direct Stack calls."""
    m = material(case['seed'])
    sig = m.sig_kind(case['sig'])
    key = m.key_kind(case['key'])
    acc = Acc()
    for tname, tail in sorted(SIG_TAILS.items()):
        devs, out, nt = compare_program([sig, key] + tail, msg=m.digest)
        acc.n += 2
        acc.add('%s:%s:%s' % (case['sig'], case['key'], tname), devs, out, nt)
    for hname, hsh in (('right_hash', codec.hash160(key)), ('wrong_hash', codec.hash160(key + b'x'))):
        devs, out, nt = compare_program([sig, key, 0x76, 0xa9, hsh, 0x88, 0xac], msg=m.digest)
        acc.n += 2
        acc.add('%s:%s:p2pkh_%s' % (case['sig'], case['key'], hname), devs, out, nt)
    for code in (0xac, 0xad):
        devs, out, nt = compare_direct(code, [sig, key], msg=m.digest)
        acc.n += 1
        acc.add('%s:%s:direct_%02x' % (case['sig'], case['key'], code), devs, out, nt)
    return acc.result()


def sub_multisig(case):
    """case = {'seed', 'n', 'm', 'ktype', 'pre'}: every m-tuple (starting with pre) over the n valid signatures + a foreign one, x dummy variant
    x env_data variant x {CHECKMULTISIG, CHECKMULTISIGVERIFY OP_1, CHECKMULTISIG NOT}; bare, P2SH-flattened and
    direct Stack calls."""
    S = _lib()
    mt = material(case['seed'])
    n, m = case['n'], case['m']
    keys = [(mt.pk if case['ktype'] == 'comp' else mt.pku)[i] for i in range(n)]
    sigalpha = [mt.sig(i) for i in range(n)] + [mt.sig(4)]
    lock = [0x50 + m if m else 0] + keys + [0x50 + n]
    redeem = ser(lock + [0xae])
    acc = Acc()
    pre = tuple(case.get('pre', ()))
    for tup in itertools.product(range(n + 1), repeat=m - len(pre)):
        tup = pre + tup
        sigs = [sigalpha[i] for i in tup]
        for dname, dummy in (('null', [0]), ('nonnull', [0x51]), ('missing', [])):
            base = dummy + sigs + lock
            key = '%d%d%s:%s:%s' % (n, m, case['ktype'], ''.join(map(str, tup)), dname)
            for ename, env in (('noenv', None), ('env_redeem', {'redeemscript': redeem})):
                for tname, tail in (('cms', [0xae]), ('cmsv_1', [0xaf, 0x51]), ('cms_not', [0xae, 0x91])):
                    if tname != 'cms' and dname != 'null':
                        continue
                    devs, out, nt = compare_program(base + tail, env=env, msg=mt.digest, cons_env={})
                    acc.n += 2
                    acc.add('%s:%s:%s' % (key, ename, tname), devs, out, nt)
            for code in (0xae, 0xaf):
                devs, out, nt = compare_direct(code, [_push_of(c) if isinstance(c, int) else c for c in base],
                                               msg=mt.digest)
                acc.n += 1
                acc.add('%s:direct_%02x' % (key, code), devs, out, nt)
            if dname != 'missing' and m >= 1:
                devs, out, nt = compare_p2sh(S, mt, dummy + sigs, redeem)
                acc.n += 1
                acc.add('%s:p2sh' % key, devs, out, nt)
    return acc.result()


def compare_p2sh(S, mt, unlock, redeem):
    """P2SH multisig the way the library evaluates it: Script.parse_bytes(scriptSig + scriptPubKey).evaluate()."""
    ss = ser(unlock + [redeem])
    spk = b'\xa9\x14' + codec.hash160(redeem) + b'\x87'
    exp = interp.verify_script(ss, spk, [], RefChecker(mt.digest, None))
    try:
        s = S.Script.parse_bytes(ss + spk)
        r = s.evaluate(message=mt.digest)
        obs = 'valid' if r is True else 'invalid' if r is False else 'nonbool'
    except Exception as e:
        obs = 'raise ' + type(e).__name__
    if (obs == 'valid') == exp:
        return [], 'valid' if exp else 'invalid', True
    detail = {'scriptSig': show(unlock + [redeem]), 'scriptPubKey': spk.hex(), 'consensus_valid': exp, 'library': obs}
    cls = 'accepts_invalid' if obs == 'valid' else 'differs'
    why = 'unexplained'
    if obs == 'valid' and unlock and unlock[0] != 0:
        why = 'by|op_checkmultisig|nonempty_dummy_accepted'
    return [{'sig': 'parse_bytes+evaluate(p2sh_multisig)|%s|%s' % (cls, why), 'detail': detail}], 'dev:' + cls, True


# --- locktime templates
CLTV_OPERANDS = [-1, 0, 1, 100, 49999999, 50000000, 50000001, 499999999, 500000000, 500000001, 0x7fffffff,
                 0x80000000, 0xffffffff, 0x100000000]
CLTV_TXLOCK = [0, 1, 99, 100, 101, 49999999, 50000000, 50000001, 499999999, 500000000, 500000001, 0x7fffffff,
               0x80000000, 0xffffffff]
SEQS = [0, 1, 0xfffffffe, 0xffffffff]
CSV_OPERANDS = [-1, 0, 1, 0xffff, 0x10000, 1 << 22, (1 << 22) | 1, (1 << 22) | 0xffff, 1 << 31, (1 << 31) | 1,
                0xffffffff, 0x100000000]
CSV_SEQS = [0, 1, 2, 0xffff, 0x10000, 1 << 22, (1 << 22) | 1, (1 << 22) | 0xffff, 1 << 31, (1 << 31) | 1, 0xfffffffe,
            0xffffffff]


def sub_locktime(case):
    """case = {'seed', 'op': 'cltv'|'csv', 'operand': n}: <n> CLTV/CSV DROP <sig> <key> CHECKSIG style templates over
    every tx locktime / sequence / version boundary value."""
    mt = material(case['seed'])
    n = case['operand']
    item = num_encode(n)
    acc = Acc()
    raw_items = [item]
    if n == 0:
        raw_items += [b'\x00', b'\x80', b'\x00\x00\x00\x00\x00\x00']
    for it in raw_items:
        for tname in ('bare', 'p2pk'):
            if case['op'] == 'cltv':
                envs = [{'sequence': s, 'locktime': l} for s in SEQS for l in CLTV_TXLOCK]
                code = 0xb1
            else:
                envs = [{'sequence': s, 'version': v} for s in CSV_SEQS for v in (1, 2)]
                code = 0xb2
            if tname == 'bare':
                progs = [('bare', [it, code])]
            else:
                progs = [('p2pk', [mt.sig(0), it, code, 0x75, mt.pk[0], 0xac]),
                         ('p2pk_badsig', [mt.sig(4), it, code, 0x75, mt.pk[0], 0xac])]
            for pname, prog in progs:
                for env in envs:
                    cons_env = dict(env)
                    if cons_env.get('locktime', 0) is None:
                        continue
                    devs, out, nt = compare_program(prog, env=env, msg=mt.digest, cons_env=cons_env)
                    acc.n += 2
                    acc.add('%s:%s:%s:%s:%s' % (case['op'], it.hex(), pname, env.get('sequence'), env.get(
                        'locktime', env.get('version'))), devs, out, nt)
    if case['op'] == 'cltv':
        # direct Stack.op_checklocktimeverify(sequence, tx_locktime)
        S = _lib()
        for s in SEQS:
            for l in CLTV_TXLOCK:
                if l is None:
                    continue
                for stack in ([item], []):
                    env = {'sequence': s, 'locktime': l}
                    c = list(stack)
                    try:
                        _op_cltv(c, False, None, env)
                        exp = True
                    except Fail:
                        exp = False
                    st = S.Stack(list(stack))
                    try:
                        r = st.op_checklocktimeverify(s, l)
                        obs = r is True and list(st) == list(stack)
                        if r not in (True, False):
                            obs = 'nonbool'
                    except Exception:
                        obs = False
                    acc.n += 1
                    devs = []
                    if obs != exp:
                        for dis in _disable_sets(_op_cltv, stack, env):
                            fired = Fired(dis)
                            try:
                                _op_cltv(list(stack), True, fired, env)
                                mod = True
                            except Fail:
                                mod = False
                            if mod == obs and fired:
                                break
                        d = 'succeeds_where_consensus_fails' if obs else 'fails_where_consensus_succeeds'
                        detail = {'stack': hexs(stack), 'sequence': s, 'tx_locktime': l, 'consensus_passes': exp,
                                  'library': obs}
                        if mod == obs and fired:
                            devs = [{'sig': 'Stack.op_checklocktimeverify|%s|%s' % (f.split('|', 1)[1], d),
                                     'detail': detail} for f in sorted(fired)]
                        else:
                            devs = [{'sig': 'Stack.op_checklocktimeverify|unexplained|%s' % d, 'detail': detail}]
                    acc.add('direct:%s:%s:%s:%d' % (item.hex(), s, l, len(stack)), devs,
                            'dev' if devs else ('ok' if exp else 'fail'), True)
    return acc.result()


# ------------------------------------------------------------------ histories on ONE Script object
# Script.evaluate(message=None, env_data=None): "Leave empty to use Script.message. If supplied Script.message will be
# ignored" (same for env_data).  So the message a call is documented to use is: the argument when it is not None,
# otherwise the attribute Script.message as it can be read just before the call; every call starts on an empty stack.
HIST_MSGS = [None, 'A', 'B']


def hist_templates(mt):
    """name -> (unlock items, lock items, env variants, parse_only).  All signatures are over digest A."""
    k = mt.pk
    multi_lock = [0x52, k[0], k[1], k[2], 0x53, 0xae]
    redeem = ser(multi_lock)
    other = ser([0x51, k[3], 0x51, 0xae])
    spk = [0xa9, codec.hash160(redeem), 0x87]
    return {
        'p2pk': ([mt.sig(0)], [k[0], 0xac], [None], False),
        'p2pkh': ([mt.sig(0), k[0]], [0x76, 0xa9, codec.hash160(k[0]), 0x88, 0xac], [None], False),
        'multisig': ([0, mt.sig(0), mt.sig(2)], multi_lock + [0x51],
                     [None, {'redeemscript': redeem}, {'redeemscript': other}], False),
        'p2sh_multisig': ([0, mt.sig(0), mt.sig(2), redeem], spk, [None, {'redeemscript': redeem}, {}], True),
    }


def hist_ops(envs):
    ops = [['eval', m, e] for m in HIST_MSGS for e in range(len(envs))]
    ops += [['read_stack'], ['poke_stack'], ['add_empty', 'A'], ['add_empty', 'B']]
    return ops


def hist_ctors(parse_only):
    out = [] if parse_only else [['ctor', m] for m in HIST_MSGS]
    out += [['parse', m] for m in HIST_MSGS]
    if not parse_only:
        out += [['add_ctor', a, b] for a in HIST_MSGS for b in HIST_MSGS]
    out += [['add_parse', a, b] for a in HIST_MSGS for b in HIST_MSGS]
    return out


def _flat(cmds):
    out = []
    for c in cmds:
        if isinstance(c, list):
            out += _flat(c)
        else:
            out.append(c if isinstance(c, int) else bytes(c))
    return out


def _same_prog(cmds, prog):
    """Script.commands (p2sh: the redeemscript is kept as a nested list) against the intended item list."""
    got = _flat(cmds)
    want = []
    for c in prog:
        if not isinstance(c, int) and len(c) > 80 and c[-1:] == b'\xae':
            want += [op if d is None else bytes(d) for op, d in codec.script_tokens(c)]
        else:
            want.append(c)
    norm = lambda x: [(_push_of(i) if isinstance(i, int) and _push_of(i) is not None else i) for i in x]
    return norm(got) == norm(want)


def hist_build(S, ctor, unlock, lock, msgs):
    kind = ctor[0]
    if kind == 'ctor':
        return S.Script(list(unlock) + list(lock), message=msgs[ctor[1]])
    if kind == 'parse':
        return S.Script.parse_bytes(ser(unlock + lock), message=msgs[ctor[1]])
    if kind == 'add_ctor':
        return S.Script(list(unlock), message=msgs[ctor[1]]) + S.Script(list(lock), message=msgs[ctor[2]])
    a = S.Script.parse_bytes(ser(unlock), message=msgs[ctor[1]])
    b = S.Script.parse_bytes(ser(lock), message=msgs[ctor[2]])
    return a + b


def hist_judge(tpl, prog, obs, msg, env, prev_stack):
    """Deviations of one evaluate() call of a history from the reference verdict for (msg, env)."""
    menv = dict(env or {})
    if msg is not None:
        menv['digest'] = msg
    if tpl == 'p2sh_multisig':
        unlock_n = 4
        ss, spk = ser(prog[:unlock_n]), ser(prog[unlock_n:])
        exp = bool(msg is not None and interp.verify_script(ss, spk, [], RefChecker(msg, None)))
        if (obs[0] == 'valid') == exp:
            return [], 'valid' if exp else 'invalid', None
        flat = prog[:unlock_n - 1] + [op if d is None else bytes(d) for op, d in codec.script_tokens(
            prog[unlock_n - 1])] + prog[unlock_n:]
        direction = 'accepts_invalid' if obs[0] == 'valid' else 'differs'
        ok_m, st_m, fired = model_run(flat, True, menv)
        mvalid = bool(ok_m and st_m and st_m[-1] != b'')
        detail = {'scriptSig+scriptPubKey': show(prog), 'consensus_valid': exp, 'library': obs[0]}
        if mvalid == (obs[0] == 'valid') and fired:
            return [{'sig': 'parse_bytes+evaluate(p2sh_multisig)|%s|by|%s' % (direction, d), 'detail': detail}
                    for d in sorted(fired)], 'dev:' + direction, (flat, menv)
        return [{'sig': 'history|%s|unexplained' % direction, 'detail': detail}], 'dev:' + direction, (flat, menv)
    ok_r, st_r, err = interp.run(ser(prog), [], RefChecker(msg, None))
    devs, out, _ = classify(prog, menv, (ok_r, st_r, err), obs, None, env, site='history')
    return devs, out, (prog, menv)


def hist_name_class(devs, model_prog, obs, msgs, envs, msg_eff, env_eff, prev_stack):
    """Give an unexplained deviation of a history step the name of the state leak that reproduces it."""
    if not devs or not any(d['sig'].endswith('|unexplained') for d in devs) or model_prog is None:
        return devs
    prog, menv = model_prog

    def matches(m, e, init=()):
        env2 = dict(e or {})
        if m is not None:
            env2['digest'] = m
        ok_m, st_m, fired = model_run(prog, True, env2, (), init)
        mP = predictions(ok_m, st_m, _lib_truth)[0]
        return _direction((obs, mP)) is None
    cls = None
    for name, m in msgs.items():
        if m != msg_eff and matches(m, env_eff):
            cls = 'message_other_than_documented_used'
            break
    if cls is None:
        for e in envs:
            if e != env_eff and matches(msg_eff, e):
                cls = 'env_data_other_than_documented_used'
                break
    if cls is None and prev_stack and matches(msg_eff, env_eff, prev_stack):
        cls = 'stack_not_reset_between_evaluations'
    if cls is None:
        return devs
    out = []
    for d in devs:
        if d['sig'].endswith('|unexplained'):
            d = {'sig': d['sig'][:-len('unexplained')] + cls, 'detail': d['detail']}
        out.append(d)
    return out


_HJ = {}


def hist_run(S, tpl, unlock, lock, envs, ctor, seq, msgs):
    """Execute one history on one object.  Returns (devs, outcomes, n_evaluations)."""
    prog = list(unlock) + list(lock)
    devs, outs, n = [], [], 0
    trace = [ctor]
    try:
        s = hist_build(S, ctor, unlock, lock, msgs)
    except Exception as e:
        return [{'sig': 'history|construction_raises', 'detail': {'template': tpl, 'ctor': ctor, 'exc': repr(e)[:120]}}], \
            ['dev:construction'], 0
    if not _same_prog(s.commands, prog):
        return [], ['parsed_differently'], 0     # Script.parse heuristics on partial scripts are the subject of C18
    if ctor[0] in ('ctor', 'parse') and s.message != msgs[ctor[1]]:
        devs.append({'sig': 'history|message_given_at_construction_not_stored', 'detail': {
            'template': tpl, 'ctor': ctor, 'Script.message': repr(s.message)[:80]}})
    prev_stack = []
    for op in seq:
        trace.append(op)
        if op[0] == 'read_stack':
            prev_stack = [bytes(x) for x in s.stack]
        elif op[0] == 'poke_stack':
            s.stack.append(b'\x01')
            prev_stack = [bytes(x) for x in s.stack]
        elif op[0] == 'add_empty':
            s = s + S.Script([], message=msgs[op[1]])
        else:
            stored_msg, stored_env = s.message, s.env_data
            arg_msg = msgs[op[1]]
            arg_env = envs[op[2]]
            msg_eff = arg_msg if arg_msg is not None else stored_msg
            env_eff = dict(arg_env) if arg_env is not None else dict(stored_env or {})
            if isinstance(msg_eff, str):
                msg_eff = bytes.fromhex(msg_eff)
            try:
                r = s.evaluate(message=arg_msg, env_data=dict(arg_env) if arg_env is not None else None)
                obs = ('valid', [bytes(x) for x in s.stack]) if r is True else (
                    ('invalid', None) if r is False else ('nonbool', repr(r)[:60]))
            except Exception as e:
                obs = ('raise', repr(e)[:100])
            n += 1
            ck = (tpl, msg_eff, tuple(sorted(env_eff.items())), obs[0], tuple(obs[1]) if isinstance(obs[1], list)
                  else obs[1])
            if ck not in _HJ:        # the verdict of the oracle/model for this (message, env_data, observation)
                _HJ[ck] = hist_judge(tpl, prog, obs, msg_eff, env_eff, prev_stack)
            d, out, model_prog = _HJ[ck]
            d = [dict(x) for x in d]
            d = hist_name_class(d, model_prog, obs, msgs, [e for e in envs], msg_eff, env_eff, prev_stack)
            for x in d:
                x['detail'] = dict(x['detail'], history=_hist_show(trace), stored_message_before_call=(
                    None if stored_msg is None else ('A' if stored_msg == msgs['A'] else 'B' if stored_msg == msgs[
                        'B'] else repr(stored_msg)[:40])), documented_message=(
                    None if msg_eff is None else ('A' if msg_eff == msgs['A'] else 'B' if msg_eff == msgs['B'] else '?')))
            devs += d
            outs.append(out)
            prev_stack = [bytes(x) for x in s.stack]
            if not _same_prog(s.commands, prog):
                devs.append({'sig': 'history|evaluate_changes_commands', 'detail': {'history': _hist_show(trace)}})
    return devs, outs, n


def _hist_show(trace):
    return ' ; '.join('%s(%s)' % (t[0], ','.join(str(x) for x in t[1:])) for t in trace)


def sub_hist(case):
    """case = {'seed', 'tpl', 'ctor', 'first': op index or None, 'L'}: every operation sequence of length <= L that
    starts with operation `first`, executed on one Script object built by `ctor`."""
    S = _lib()
    mt = material(case['seed'])
    msgs = {None: None, 'A': mt.digest, 'B': mt.other_digest}
    unlock, lock, envs, _ = hist_templates(mt)[case['tpl']]
    ops = hist_ops(envs)
    acc = Acc()
    if case['first'] is None:
        seqs = [[]]
    else:
        seqs = []
        for l in range(0, case['L']):
            seqs += [[ops[case['first']]] + [ops[i] for i in t] for t in itertools.product(range(len(ops)), repeat=l)]
    for seq in seqs:
        if seq and seq[-1][0] != 'eval':
            continue        # nothing is observed after the last evaluate: same observations as the shorter history
        if len(seq) >= 3 and any(o[0] == 'eval' and o[2] >= 2 for o in seq):
            continue        # the third env_data variant takes part in all histories of length <= 2 only
        devs, outs, n = hist_run(S, case['tpl'], unlock, lock, envs, case['ctor'], seq, msgs)
        acc.n += max(n, 1)
        key = '%s:%s:%s' % (case['tpl'], case['ctor'], seq)
        acc.add(key, devs, ','.join(outs) or 'no_evaluate', bool(n))
    return acc.result()


def sub_reeval(case):
    """case = {'block': [lo, hi], 'k': evaluations}: non-signature programs evaluated k times on ONE object, with
    {nothing, read .stack, append an item to .stack} between the calls; every call must give the reference result
    (the stack starts empty each time, the commands are not consumed)."""
    S = _lib()
    progs = reeval_programs()
    acc = Acc()
    for pi in range(case['block'][0], case['block'][1]):
        for tail in ([], [0x51]):
            prog = progs[pi] + tail
            ref = interp.run(ser(prog), [], interp.NullChecker())
            for between in ('none', 'read', 'poke'):
                try:
                    s = S.Script(list(prog))
                except Exception as e:
                    acc.add('%d' % pi, [{'sig': 'history|construction_raises', 'detail': {'program': show(prog)}}],
                            'dev', True)
                    continue
                prev = []
                for k in range(case['k']):
                    try:
                        r = s.evaluate()
                        obs = ('valid', [bytes(x) for x in s.stack]) if r is True else (
                            ('invalid', None) if r is False else ('nonbool', repr(r)[:60]))
                    except Exception as e:
                        obs = ('raise', repr(e)[:100])
                    acc.n += 1
                    devs, out, _ = classify(prog, {}, ref, obs, None, None, site='history')
                    if k and any(d['sig'].endswith('|unexplained') for d in devs):
                        devs = hist_name_class(devs, (prog, {}), obs, {None: None}, [None], None, {}, prev)
                    for d in devs:
                        d['detail'] = dict(d['detail'], evaluation_number=k + 1, between_calls=between)
                    acc.add('%d:%d:%s:%d' % (pi, len(tail), between, k), devs, out, ref[0])
                    if between == 'poke':
                        s.stack.append(b'\x02')
                    prev = [bytes(x) for x in s.stack]
                    if [c for c in s.commands] != list(prog):
                        acc.add('%d:cmd' % pi, [{'sig': 'history|evaluate_changes_commands', 'detail': {
                            'program': show(prog)}}], 'dev', True)
    return acc.result()


_REEVAL = []


def reeval_programs():
    """All programs of length <= 2 over the program alphabet, every opcode on the 1- and 2-item stacks over
    {"",00,01,81}, and the conditional trees of depth <= 2 with inline conditions."""
    if not _REEVAL:
        for l in (1, 2):
            _REEVAL.extend([list(t) for t in itertools.product(PROG_ALPHA, repeat=l)])
        small = [b'', b'\x00', b'\x01', b'\x81']
        for c in PLAIN_OPS:
            for st in stacks(small, 1, 2):
                _REEVAL.append(list(st) + [c])
        for tree, nconds in _cond_all():
            if nconds <= 2:
                for conds in itertools.product(COND_VALUES, repeat=nconds):
                    _REEVAL.append(cond_program(tree, list(conds), True, 1))
    return _REEVAL



SUBS = {'op_direct': sub_op_direct, 'op_eval': sub_op_eval, 'prog': sub_prog, 'cond': sub_cond, 'condbody': sub_condbody, 'sig': sub_sig,
        'multisig': sub_multisig, 'locktime': sub_locktime, 'hist': sub_hist, 'reeval': sub_reeval}


# --------------------------------------------------------------------------------------- selftest
def selftest():
    codec.selftest()
    secp.selftest()
    interp.selftest()
    # the model in consensus mode against hand-written consensus facts, in library mode against the behaviours the
    # repository's own unit tests pin (tests/test_script.py)
    def run(prog, lib):
        ok, st, fired = model_run(prog, lib)
        return ok, [num_decode(x) for x in st], fired
    assert run([0x52, 0x55, 0x94], False)[:2] == (True, [-3])
    assert run([0x52, 0x55, 0x94], True)[:2] == (True, [3])
    assert run([0x51, 0x52, 0x7d], False)[:2] == (True, [2, 1, 2])
    assert run([0x51, 0x52, 0x7d], True)[:2] == (True, [1, 2, 1])
    assert run([0x51, 0x52, 0x53, 0x54, 0x72], False)[:2] == (True, [3, 4, 1, 2])
    assert run([0x51, 0x52, 0x53, 0x54, 0x72], True)[:2] == (True, [4, 3, 1, 2])
    assert run([0x51, 0x52, 0x53, 0x53, 0x79], True)[:2] == (True, [1, 2, 3, 1])
    assert run([0x51, 0x52, 0x53, 0x53, 0x79], False)[0] is False
    assert run([0x51, 0x52, 0x53, 0x53, 0x7a], True)[:2] == (True, [2, 3, 1])
    assert run([0x59, 0x57, 0x58, 0xa5], True)[:2] == (True, [1])
    assert run([0x59, 0x57, 0x58, 0xa5], False)[:2] == (True, [0])
    assert run([0x55, 0x51, 0x63, 0x52, 0x67, 0x55, 0x68, 0x93], True)[:2] == (True, [7])
    assert run([0x55, 0x00, 0x64, 0x52, 0x67, 0x55, 0x68, 0x93], False)[:2] == (True, [7])
    # double ELSE: consensus toggles back, the library model does not
    p = [0x51, 0x63, 0x52, 0x67, 0x53, 0x67, 0x54, 0x68]
    assert run(p, False)[:2] == (True, [2, 4]) and run(p, True)[:2] == (True, [2])
    assert run([b'\x00', 0x69], False)[0] is False and run([b'\x00', 0x69], True)[0] is True
    # consensus mode == reference interpreter on a fixed family
    for prog in itertools.product([0x00, 0x51, 0x52, b'\x80', 0x63, 0x67, 0x68, 0x94, 0x7d, 0x79, 0x69, 0x9c], repeat=3):
        ok_r, st_r, _ = interp.run(ser(prog), [], interp.NullChecker())
        ok_c, st_c, _ = model_run(list(prog), False)
        assert ok_r == ok_c and (not ok_r or st_r == st_c), prog


# -------------------------------------------------------------------------------------------- run
def run(ctx):
    q = ctx.quick
    seed = ctx.seed
    only = getattr(ctx, 'only', None)

    def want(name):
        return not only or name in only
    # (a) every opcode x every small stack
    if want('op_direct'):
        ctx.pmap('op_direct', [{'op': c, 'seed': seed} for c in PLAIN_OPS] +
                 [{'op': c, 'seed': seed, 'deep': True} for c in DEEP_OPS], chunk=1)
    if want('op_eval'):
        ctx.pmap('op_eval', [{'op': c, 'seed': seed} for c in PLAIN_OPS] +
                 [{'op': c, 'seed': seed, 'deep': True} for c in DEEP_OPS], chunk=1)
    # (b) programs
    nprog = 0
    if want('prog'):
        A = len(PROG_ALPHA)
        R = len(RED_ALPHA)
        cases = [{'alpha': 'P', 'prefix': [], 'tail': 0}, {'alpha': 'P', 'prefix': [], 'tail': 1}]
        cases += [{'alpha': 'P', 'prefix': [i], 'tail': 1} for i in range(A)]
        cases += [{'alpha': 'P', 'prefix': [i], 'tail': 2} for i in range(A)]
        L = 3 if q else 4
        if not q:
            cases += [{'alpha': 'P', 'prefix': [i, j], 'tail': 2} for i in range(A) for j in range(A)]
        # longer programs over the reduced alphabet
        LR = 4 if q else 5
        cases += [{'alpha': 'R', 'prefix': [i, j], 'tail': LR - 2} for i in range(R) for j in range(R)]
        # seed-positioned windows: two leading pushes chosen by the seed, then every 3-symbol suffix
        its = items(seed)
        nwin = 1 if q else 4
        leads = []
        for k in range(nwin):
            hsh = hashlib.sha256(b'C19 window %d %d' % (seed, k)).digest()
            leads.append([its[hsh[0] % len(its)].hex(), its[hsh[1] % len(its)].hex()])
        for lead in leads:
            cases += [{'alpha': 'P', 'lead': lead, 'prefix': [i], 'tail': 2} for i in range(A)]
        # every pair of leading pushes from the item alphabet followed by every 2-symbol suffix (seed-independent)
        if not q:
            cases += [{'alpha': 'P', 'lead': [a.hex(), b.hex()], 'prefix': [], 'tail': 2} for a in its for b in its]
        rets = ctx.pmap('prog', cases, chunk=1)
        nprog = sum(r or 0 for r in rets)
        ctx.note('nontrivial_programs', nprog)
        ctx.note('program_bounds', {'full_alphabet_max_len': L, 'reduced_alphabet_len': LR, 'alphabet': len(PROG_ALPHA),
                                    'reduced_alphabet': len(RED_ALPHA), 'seed_windows': leads,
                                    'alphabet_symbols': [show([x]) for x in PROG_ALPHA],
                                    'reduced_symbols': [show([x]) for x in RED_ALPHA]})
    # (c) conditionals
    if want('condbody'):
        ctx.pmap('condbody', [{'kind': k, 'nelse': ne, 'outer': o} for k in (0x63, 0x64) for ne in range(0, 4 if q else 5)
                              for o in (False, True)], chunk=1)
    if want('cond'):
        nshape = len(_cond_all())
        step = 8
        ctx.pmap('cond', [{'lo': a, 'hi': min(a + step, nshape), 'quick': q} for a in range(0, nshape, step)], chunk=1)
        ctx.note('conditional_shapes', nshape)
    # (d) spends
    if want('sig'):
        ctx.pmap('sig', [{'seed': seed, 'sig': s, 'key': k} for s in SIG_KINDS for k in KEY_KINDS], chunk=1)
    if want('multisig'):
        ctx.pmap('multisig', [{'seed': seed, 'n': n, 'm': m, 'ktype': kt, 'pre': list(pre)}
                              for n in (1, 2, 3) for m in range(0, n + 1)
                              for kt in (('comp',) if q and n == 3 and m == 3 else ('comp', 'uncomp'))
                              for pre in itertools.product(range(n + 1), repeat=max(m - 1, 0))], chunk=1)
    if want('locktime'):
        ctx.pmap('locktime', [{'seed': seed, 'op': 'cltv', 'operand': n} for n in CLTV_OPERANDS] +
                 [{'seed': seed, 'op': 'csv', 'operand': n} for n in CSV_OPERANDS], chunk=1)
    # (e) histories on one Script object
    if want('hist'):
        L = 2 if q else 3
        mt = material(seed)
        cases = []
        for tpl, (_, _, envs, parse_only) in sorted(hist_templates(mt).items()):
            nops = len(hist_ops(envs))
            for ctor in hist_ctors(parse_only):
                cases.append({'seed': seed, 'tpl': tpl, 'ctor': ctor, 'first': None, 'L': L})
                cases += [{'seed': seed, 'tpl': tpl, 'ctor': ctor, 'first': i, 'L': L} for i in range(nops)]
        ctx.pmap('hist', cases, chunk=1)
        ctx.note('history_bounds', {'max_operations_after_construction': L, 'templates': sorted(hist_templates(mt)),
                                    'constructions': [_hist_show([c]) for c in hist_ctors(False)]})
    if want('reeval'):
        nre = len(reeval_programs())
        step = 200
        ctx.pmap('reeval', [{'block': [a, min(a + step, nre)], 'k': 2 if q else 3} for a in range(0, nre, step)],
                 chunk=1)
    ctx.note('bounds', {'opcode_stacks': 'depth<=3 over %d items; depth 4-6 over %d items for %d deep opcodes' % (
        len(items(seed)), len(DEEP_ITEMS), len(DEEP_OPS)), 'opcodes': len(PLAIN_OPS),
        'items': [x.hex() for x in items(seed)]})


# ------------------------------------------------------------- documentation of the named deviations
# dev id -> (what the library does instead of consensus, why it is a recorded finding and not repaired here)
PINNED = 'pinned by tests/test_script.py (%s), so it is recorded, not repaired'
FIXED_BY = 'repaired by proposed_fixes/%s (entry to be dropped when the fix is applied)'
DEV_DOC = {
    'op_verify|nonempty_zero_counts_as_true': (
        'OP_VERIFY passes for every non-empty top item; consensus CastToBool is false for all-zero items and '
        'negative zero (00, 80, 0080, ...)', FIXED_BY % 'C19-truthiness-numequal.diff'),
    'script_end|nonempty_zero_counts_as_true': (
        'Script.evaluate() returns True when the final top item is non-empty, also for 00 / 80 / 0080 (false under '
        'consensus CastToBool)', FIXED_BY % 'C19-truthiness-numequal.diff'),
    'op_ifdup|nonempty_zero_counts_as_true': (
        'OP_IFDUP duplicates every non-empty top item, also 00 / 80 (false under consensus)',
        FIXED_BY % 'C19-truthiness-numequal.diff'),
    'op_not|nonempty_zero_counts_as_nonzero': (
        'OP_NOT tests "item == empty string" instead of "number == 0": 00 / 80 / 0080 give 0 instead of 1',
        FIXED_BY % 'C19-truthiness-numequal.diff'),
    'op_0notequal|nonempty_zero_counts_as_nonzero': (
        'OP_0NOTEQUAL tests "item != empty string" instead of "number != 0": 00 / 80 / 0080 give 1 instead of 0',
        FIXED_BY % 'C19-truthiness-numequal.diff'),
    'op_booland|nonempty_zero_counts_as_true': (
        'OP_BOOLAND treats every non-empty operand as true (00 / 80 are numerically zero)',
        FIXED_BY % 'C19-truthiness-numequal.diff'),
    'op_boolor|nonempty_zero_counts_as_true': (
        'OP_BOOLOR treats every non-empty operand as true (00 / 80 are numerically zero)',
        FIXED_BY % 'C19-truthiness-numequal.diff'),
    'op_numequal|compares_bytes_not_numbers': (
        'OP_NUMEQUAL compares the operand byte strings, so numerically equal encodings ("" vs 00 vs 80, 01 vs 0100) '
        'are unequal', FIXED_BY % 'C19-truthiness-numequal.diff'),
    'op_numnotequal|compares_bytes_not_numbers': (
        'OP_NUMNOTEQUAL compares the operand byte strings, so numerically equal encodings ("" vs 00 vs 80) count as '
        'different', FIXED_BY % 'C19-truthiness-numequal.diff'),
    'op_numequalverify|compares_bytes_not_numbers': (
        'OP_NUMEQUALVERIFY compares the operand byte strings, so numerically equal encodings ("" vs 00) fail the '
        'script', FIXED_BY % 'C19-truthiness-numequal.diff'),
    'op_numequalverify|oversize_operand_check_ignored': (
        'OP_NUMEQUALVERIFY ignores the False returned by op_numequal() for an operand longer than 4 bytes and lets '
        'op_verify() consume the top item: the script continues where consensus fails (number overflow)',
        FIXED_BY % 'C19-truthiness-numequal.diff'),
    'op_sub|result==top-second': (
        'OP_SUB computes top - second; consensus is second - top (a b OP_SUB = a - b)',
        PINNED % 'test_stack_op_sub expects [2,5] -> 3'),
    'op_numlessthan|operands_reversed': (
        'Stack.op_numlessthan (OP_LESSTHAN) compares top < second; consensus is second < top',
        PINNED % 'test_stack_op_numlessthan'),
    'op_numgreaterthan|operands_reversed': (
        'Stack.op_numgreaterthan (OP_GREATERTHAN) compares top > second; consensus is second > top',
        PINNED % 'test_stack_op_numgreaterthan'),
    'op_numlessthanorequal|operands_reversed': (
        'Stack.op_numlessthanorequal (OP_LESSTHANOREQUAL) compares top <= second; consensus is second <= top',
        PINNED % 'test_stack_op_numlessthanorequal'),
    'op_numgreaterthanorequal|operands_reversed': (
        'Stack.op_numgreaterthanorequal (OP_GREATERTHANOREQUAL) compares top >= second; consensus is second >= top',
        PINNED % 'test_stack_op_numgreaterthanorequal'),
    'op_lessthan|evaluate_method_not_found': (
        'Script.evaluate() cannot execute OP_LESSTHAN: it looks for Stack.op_lessthan, the method is called '
        'op_numlessthan, so ScriptError("Method op_lessthan not found") escapes evaluate()',
        'an alias would dispatch to the operand-reversed method that the unit tests pin; recorded'),
    'op_greaterthan|evaluate_method_not_found': (
        'Script.evaluate() cannot execute OP_GREATERTHAN (method is named op_numgreaterthan): ScriptError escapes',
        'an alias would dispatch to the operand-reversed method that the unit tests pin; recorded'),
    'op_lessthanorequal|evaluate_method_not_found': (
        'Script.evaluate() cannot execute OP_LESSTHANOREQUAL (method is named op_numlessthanorequal): ScriptError '
        'escapes', 'an alias would dispatch to the operand-reversed method that the unit tests pin; recorded'),
    'op_greaterthanorequal|evaluate_method_not_found': (
        'Script.evaluate() cannot execute OP_GREATERTHANOREQUAL (method is named op_numgreaterthanorequal): '
        'ScriptError escapes', 'an alias would dispatch to the operand-reversed method that the unit tests pin; '
        'recorded'),
    'op_within|tests_min<=max<x': (
        'OP_WITHIN pops max, min, x and tests min <= max < x; consensus tests min <= x < max (x min max OP_WITHIN)',
        PINNED % 'test_stack_op_within expects [9,7,8] -> true'),
    'op_tuck|acts_as_over': (
        'OP_TUCK appends a copy of the second item (the effect of OP_OVER): a b -> a b a; consensus: a b -> b a b',
        PINNED % 'test_stack_op_tuck expects [1,2] -> [1,2,1]'),
    'op_2swap|pair_reversed': (
        'OP_2SWAP moves the top pair below the next pair in reversed order: a b c d -> d c a b; consensus: c d a b',
        PINNED % 'test_stack_op_2swap expects [1,2,3,4] -> [4,3,1,2]'),
    'op_2swap|no_depth_check': (
        'OP_2SWAP succeeds on a stack of only 2 or 3 items (reverses them); consensus fails below 4 items',
        'same method as the pinned pair reversal; recorded'),
    'op_pick|index_off_by_one': (
        'OP_PICK n copies the item n-1 below the top (stack[-n]); consensus copies the item n below the top '
        '(stack[-n-1]); n == depth is accepted where consensus fails',
        PINNED % 'test_stack_op_pick expects [1,2,3,3] -> [1,2,3,1]'),
    'op_pick|nonpositive_index_counts_from_bottom': (
        'OP_PICK with n <= 0 uses python indexing stack[-n]: n = 0 copies the bottom item (consensus: the top item), '
        'n < 0 copies the item |n| above the bottom (consensus fails)', 'same expression as the pinned off-by-one; recorded'),
    'op_pick|operand_longer_than_4_bytes_accepted': (
        'OP_PICK decodes an index operand longer than 4 bytes (e.g. 5-byte negative zero) where consensus fails with '
        'a number overflow', 'same expression as the pinned off-by-one; recorded'),
    'op_roll|index_off_by_one': (
        'OP_ROLL n moves the item n-1 below the top (stack.pop(-n)); consensus moves the item n below the top; '
        'n == depth is accepted where consensus fails', PINNED % 'test_stack_op_roll expects [1,2,3,3] -> [2,3,1]'),
    'op_roll|nonpositive_index_counts_from_bottom': (
        'OP_ROLL with n <= 0 uses python indexing stack.pop(-n): n = 0 moves the bottom item to the top (consensus: '
        'no-op), n < 0 moves the item |n| above the bottom (consensus fails)',
        'same expression as the pinned off-by-one; recorded'),
    'op_roll|operand_longer_than_4_bytes_accepted': (
        'OP_ROLL decodes an index operand longer than 4 bytes where consensus fails with a number overflow',
        'same expression as the pinned off-by-one; recorded'),
    'op_if|second_else_does_not_toggle_back': (
        'OP_IF a OP_ELSE b OP_ELSE c OP_ENDIF: the second OP_ELSE does not switch back, the library runs a | b c; '
        'consensus toggles on every OP_ELSE and runs a c | b', FIXED_BY % 'C19-if-multiple-else.diff'),
    'op_checksig|hybrid_pubkey_aborts_script': (
        'OP_CHECKSIG with a hybrid public key (prefix 06/07, valid under consensus without STRICTENC) raises and aborts '
        'the script', 'rejecting direction only; recorded'),
    'op_checksig|invalid_pubkey_aborts_script': (
        'OP_CHECKSIG with an undecodable public key raises (script aborted); consensus pushes false and continues '
        '(e.g. <sig> <badkey> OP_CHECKSIG OP_NOT is valid)', 'rejecting direction only; recorded'),
    'op_checksig|32_byte_private_key_accepted_as_pubkey': (
        'OP_CHECKSIG accepts a 32-byte item in the public-key position, reads it as a PRIVATE key and verifies '
        'against the derived public key; consensus: not a public key, result false',
        PINNED % 'test_op_stack_op_checksigverify passes a 32-byte private key'),
    'op_checksig|empty_signature_aborts_script': (
        'OP_CHECKSIG with an empty signature raises (script aborted); consensus pushes false and continues '
        '(OP_0 <key> OP_CHECKSIG OP_NOT is valid)', 'rejecting direction only; recorded'),
    'op_checksig|undecodable_signature_aborts_script': (
        'OP_CHECKSIG signature decoding differs from BIP66 strict DER', 'recorded'),
    'op_checksig|bare_64_byte_r_s_signature_accepted': (
        'OP_CHECKSIG accepts a bare 64-byte r||s signature without DER framing and hash-type byte; consensus (BIP66) '
        'fails the script', PINNED % 'test_op_stack_op_checksigverify passes a 64-byte r||s signature'),
    'op_checkmultisig|missing_dummy_accepted': (
        'OP_CHECKMULTISIG does not require the extra dummy element: it succeeds when the stack ends after the '
        'signatures; consensus fails (stack underflow)',
        PINNED % 'test_op_stack_op_checkmultisig calls it without a dummy element'),
    'op_checkmultisig|nonempty_dummy_accepted': (
        'OP_CHECKMULTISIG accepts any value as dummy element; consensus (NULLDUMMY, BIP147) requires the empty string',
        'same optional-dummy code as the pinned missing dummy; recorded'),
    'op_checkmultisig|zero_required_signatures_aborts_script': (
        'OP_CHECKMULTISIG with m = 0 and n >= 1 raises IndexError (signatures[0]); consensus: 0-of-n succeeds',
        'rejecting direction only; recorded'),
    'op_checkmultisig|evaluate_fails_without_env_redeemscript': (
        'Script.evaluate(): after OP_CHECKMULTISIG[VERIFY] it pushes env_data["redeemscript"]; without that key the '
        'KeyError makes evaluate() return False, so every valid bare multisig spend is rejected',
        'P2SH emulation relied on by test_script_verify_transaction_input_p2wsh / _p2sh_multisig; recorded'),
    'op_checkmultisig|evaluate_verifies_and_pushes_env_redeemscript': (
        'Script.evaluate(): OP_CHECKMULTISIG behaves as CHECKMULTISIGVERIFY followed by a push of '
        'env_data["redeemscript"] (a false result aborts instead of pushing false; a true result leaves the '
        'redeemscript, not 01, on the stack)',
        'P2SH emulation relied on by test_script_verify_transaction_input_p2wsh / _p2sh_multisig; recorded'),
    'op_checkmultisig|signature_encoding_handled_as_in_op_checksig': (
        'OP_CHECKMULTISIG decodes signatures like OP_CHECKSIG (bare r||s accepted, empty signature aborts)', 'recorded'),
    'op_checkmultisig|pubkey_encoding_handled_as_in_op_checksig': (
        'OP_CHECKMULTISIG decodes public keys like OP_CHECKSIG (hybrid/invalid key aborts, 32-byte private key accepted)',
        'recorded'),
    'op_checklocktimeverify|tx_locktime_0_always_fails': (
        'OP_CHECKLOCKTIMEVERIFY fails whenever the transaction locktime is 0 ("if not tx_locktime"); consensus '
        'passes for operand 0', FIXED_BY % 'C19-cltv-threshold.diff'),
    'op_checklocktimeverify|type_threshold_50000000_strict': (
        'OP_CHECKLOCKTIMEVERIFY separates block heights from timestamps at 50000000 with strict comparisons '
        '(n < 50000000 < tx or n > 50000000 > tx); consensus threshold is 500000000: a height operand against a '
        'timestamp locktime (and the reverse) is accepted between the two thresholds, equal-type pairs around '
        '50000000 are refused', FIXED_BY % 'C19-cltv-threshold.diff'),
    'op_checklocktimeverify|operand_longer_than_5_bytes_accepted': (
        'OP_CHECKLOCKTIMEVERIFY decodes an operand longer than 5 bytes; consensus fails (number overflow)',
        FIXED_BY % 'C19-cltv-threshold.diff'),
    'op_checksequenceverify|not_implemented_always_passes': (
        'OP_CHECKSEQUENCEVERIFY is a stub returning the class NotImplementedError (truthy): every relative-locktime '
        'condition passes, also negative operands, version 1, disabled or too small sequence',
        FIXED_BY % 'C19-csv-implement.diff'),
}
REPAIRABLE = frozenset(k for k, v in DEV_DOC.items() if v[1].startswith('repaired by'))
DIRECTION_DOC = {
    'accepts_invalid': 'SAFETY DIRECTION: a script consensus rejects is reported valid (or runs to completion where '
                       'consensus aborts)',
    'differs': 'a consensus-valid script is rejected, or the stack left behind differs',
    'succeeds_where_consensus_fails': 'the method succeeds where the consensus opcode fails',
    'fails_where_consensus_succeeds': 'the method fails / raises where the consensus opcode succeeds',
    'wrong_result': 'the resulting stack differs from consensus',
}


def doc_for_sig(sig):
    """(what, status note) for a deviation signature emitted by this module, or None."""
    parts = sig.split('|')
    if parts[0] == 'evaluate' and len(parts) >= 5 and parts[2] == 'by':
        dev = '|'.join(parts[3:])
        if dev in DEV_DOC:
            return 'Script.evaluate: %s. Effect here: %s' % (DEV_DOC[dev][0], DIRECTION_DOC[parts[1]]), DEV_DOC[dev][1]
    if parts[0].startswith('Stack.') and len(parts) == 3:
        meth = parts[0][6:]
        fam = {'op_checksigverify': 'op_checksig', 'op_checkmultisigverify': 'op_checkmultisig'}.get(meth, meth)
        dev = fam + '|' + parts[1]
        if dev in DEV_DOC and parts[2] in DIRECTION_DOC:
            return '%s: %s. Effect here: %s' % (parts[0], DEV_DOC[dev][0], DIRECTION_DOC[parts[2]]), DEV_DOC[dev][1]
    if parts[0] == 'parse_bytes+evaluate(p2sh_multisig)' and len(parts) >= 5 and parts[2] == 'by':
        dev = '|'.join(parts[3:])
        if dev in DEV_DOC:
            return ('Script.parse_bytes(scriptSig+scriptPubKey).evaluate() of a P2SH multisig spend: %s. Effect here: %s'
                    % (DEV_DOC[dev][0], DIRECTION_DOC[parts[1]])), DEV_DOC[dev][1]
    return None
