"""C15 BIP38 keys decrypt only with the right passphrase; new keys use fresh entropy.

E1: full products key x compression flag x network x passphrase (plain mode) and passphrase x lot/sequence x
owner salt x compression x network x seed (EC-multiplied mode), every case compared with the reference BIP38
implementation (vf/ref/bip38.py), decrypted with the right and with every other passphrase.
Passphrase text shapes: texts that a lenient converter would not take as text (hex / base58 / decimal looking, blanks,
case, empty), as str and as UTF-8 bytes, at every entry point that takes a passphrase, each reinterpretation of the
text used as a wrong passphrase.
E2/E3: explicit-state search over call sequences of the key-generating API in a fresh interpreter whose
entropy sources (os.urandom, random._urandom behind SystemRandom) were replaced by a counting deterministic
source BEFORE bitcoinlib is imported, so entropy frozen into default arguments at import time is visible.
"""
import hashlib
import json
import os
import subprocess
import sys
import unicodedata

from vf.ref import bip38, codec, nets, secp

ID = 'C15'
LEVEL = 'model_checking'
RULE = ('plain mode: the full product private key {1, top byte zero, n-1, VERIF_SEED-derived} x {compressed, '
        'uncompressed} x network x passphrase {ASCII, NFC, NFD, the BIP38 unicode vector in decomposed form}: '
        'Key.encrypt must equal the reference BIP38 encryption, Key(reference string, password) must return the '
        'key and flag, and decrypting with each other passphrase (different after NFC) must raise. EC-multiplied '
        'mode: passphrase x {no lot, lot+sequence boundaries} x owner salt; intermediate code must equal the '
        'reference; for compression x network x seed the generated key must decrypt under the reference to a '
        'key whose address is the reported one, Key(.., password) must return that key, another passphrase must '
        'raise. Passphrase text shapes: {even/odd number of hex digits, lower/upper case, with blanks, decimal PIN, '
        'zeros, 64 hex digits, a WIF string, blank-padded text, "0", empty} x passed as {str, UTF-8 bytes} x entry '
        'point {Key.encrypt, HDKey.encrypt, bip38_encrypt, Key(..), HDKey(..), bip38_decrypt in plain and '
        'EC-multiplied mode, bip38_intermediate_password without and with lot/sequence}: every result must be the '
        'reference\'s for the UTF-8 bytes of the text, and every reinterpretation of the text that is another '
        'passphrase (hex-decoded, base58-decoded, stripped, blanks removed, case swapped, decimal value) must be '
        'refused. All published vectors. Freshness: breadth-first search over call sequences (length <= 3) of '
        '{bip38_intermediate_password(pw), bip38_create_new_encrypted_wif(code), Key().encrypt(pw), HDKey()} '
        'each executed from a fresh interpreter with counting entropy sources installed before import; states '
        'are canonicalised as the multiset of calls made + equality pattern of their outputs. A case is '
        'non-trivial when the library produced a value that was compared; distinct by its parameters.')
ASSUMPTIONS = [
    'reference BIP38 (hashlib.scrypt + pycryptodome AES) reproduces all published vectors in its self-test',
    'passphrases that are equal after NFC normalisation are the same passphrase (BIP38), so they are not used as '
    '"wrong" passphrases for each other',
    'a refusal (exception) on a wrong passphrase is the demanded behaviour; its type/message is not constrained',
    'Key(bip38, password, network=...) is given the network of the key (the BIP38 string does not carry it)',
    'freshness search runs with bitcoinlib.keys.scrypt_hash replaced by a cheap deterministic function (the KDF '
    'does not draw entropy); what is judged is only whether a call draws from the entropy source while it runs '
    'and whether two calls return the same secret/owner salt/seed/encrypted key',
    'confirmation codes are not checked',
    'Key.address(compressed=x) / address_uncompressed() change key.compressed (a getter with a side effect, modelled '
    'as intended behaviour by the C12 check): a later encrypt() is compared with the reference for the flag the '
    'object has at that moment',
    'in the key-object history sub-space the library\'s own scrypt is memoised per case (a pure function; each '
    'distinct input is still computed by the library\'s scrypt once)',
    'a passphrase given as bytes is used as it is (the library documents str; bytes are accepted by every entry point '
    'except bip38_intermediate_password, whose refusal of bytes is not judged); bytes that are not valid UTF-8 are '
    'used only as WRONG passphrases',
    'in the passphrase-shape sub-space the library\'s scrypt and the reference\'s scrypt are each memoised per case '
    '(pure functions): the entry points of one case hand the same passphrase bytes and salt to the KDF when they '
    'are right',
    'HDKey(bip38, password) is called with witness_type=\'legacy\' (with the default witness type it compares the '
    'address hash with a bech32 address and refuses every key - a refusal, not judged)',
    'the published vectors have fixed passphrases (ASCII; the unicode vector of the BIP text is added in decomposed '
    'and NFC form); the other passphrase classes are covered against the reference implementation in plain/ec',
]

# Seed-independent passphrase classes (every sub-space uses all of them): what separates the Unicode
# normalisation forms - NFC (BIP38), NFD/NFKD (BIP39 style), NFKC/NFKD (compatibility folding)
PWS = {
    'ascii': 'TestingOneTwoThree',
    'nfc': unicodedata.normalize('NFC', 'Gr\u00fc\u00dfe aus dem Caf\u00e9'),     # precomposed: NFC != NFD/NFKD
    'nfd': unicodedata.normalize('NFD', 'Gr\u00fc\u00dfe aus dem Caf\u00e9'),     # same text decomposed: must equal 'nfc'
    'compat': '\ufb01sh and chips \u334d',      # ligature fi, SQUARE MEETORU: NFC keeps them, NFKC/NFKD fold them
    'vector': '\u03d2\u0301\u0000\U00010400\U0001f4a9',       # BIP38 specification passphrase, decomposed form
}
PW_CLASSES = list(PWS)
NETS = ['bitcoin', 'testnet', 'litecoin', 'dogecoin']


def selftest():
    codec.selftest()
    nets.selftest()
    bip38.selftest()
    assert PWS['nfc'] != PWS['nfd'] and bip38._norm(PWS['nfc']) == bip38._norm(PWS['nfd'])
    for c, pw in PWS.items():       # what each class separates
        forms = {f: unicodedata.normalize(f, pw) for f in ('NFC', 'NFD', 'NFKC', 'NFKD')}
        if c == 'ascii':
            assert len(set(forms.values())) == 1
        if c in ('nfc', 'nfd', 'vector'):
            assert forms['NFC'] != forms['NFD'] and forms['NFC'] != forms['NFKD']
        if c == 'compat':
            assert forms['NFC'] == pw and forms['NFKC'] != forms['NFC'] and forms['NFKD'] != forms['NFC']
    assert _folded(PWS['compat']) == 'fish and chips \u30e1\u30fc\u30c8\u30eb' and _folded(PWS['ascii']) is None
    assert bip38._norm(PWS['vector']).hex() == 'cf9300f0909080f09f92a9'       # bytes stated in the BIP
    # passphrase text shapes: all ASCII (one normalisation form), and what a lenient converter makes of each
    ri = {c: dict(_reinterpretations(t)) for c, t in SHAPES.items()}
    assert all(t.isascii() and len({unicodedata.normalize(f, t) for f in ('NFC', 'NFD', 'NFKC', 'NFKD')}) == 1
               for t in SHAPES.values()) and len(set(SHAPES.values())) == len(SHAPES)
    assert ri['pin'] == {'hex_decoded': b'\x12\x34\x56', 'base58_decoded': codec.b58decode('123456')}
    assert ri['pin_zeros'] == {'hex_decoded': b'\0\0\0\0', 'decimal_normalised': '0'}
    assert ri['hex_lower']['hex_decoded'] == b'\xde\xad\xbe\xef' and ri['hex_lower']['case_swapped'] == 'DEADBEEF'
    assert ri['hex_upper']['hex_decoded'] == b'\xca\xfe' and ri['hex_upper']['case_swapped'] == 'cafe'
    assert ri['hex_spaced']['hex_decoded'] == b'\xde\xad\xbe\xef' and ri['hex_spaced']['whitespace_removed'] == 'deadbeef'
    assert 'hex_decoded' not in ri['hex_odd'] and 'hex_decoded' not in ri['wif'] and 'hex_decoded' not in ri['padded']
    assert len(ri['hex_key']['hex_decoded']) == 32 and len(SHAPES['hex_key']) == 64
    assert codec.b58check_decode(SHAPES['wif']) is not None and ri['wif']['base58_decoded'][:1] == b'\x80'
    assert ri['padded']['whitespace_stripped'] == 'Testing One' and ri['padded']['whitespace_removed'] == 'TestingOne'
    assert ri['zero'] == {} and ri['empty'] == {}
    assert set(n for r in ri.values() for n in r) == set(REINTERPRETATIONS)
    for r in ri.values():          # every reinterpretation is a different passphrase for BIP38
        assert len({_pwbytes(v) for v in r.values()}) == len(r)
    src = _Counting()
    a, b = src.urandom(8), src.urandom(8)
    assert a != b and src.count == 2 and src.nbytes == 16


def _nfc(pw):
    return unicodedata.normalize('NFC', pw)


def _folded(pw):
    """The compatibility-folded (NFKC) passphrase when that is a DIFFERENT passphrase under BIP38 (NFC), else None."""
    f = unicodedata.normalize('NFKC', pw)
    return f if f != _nfc(pw) else None


def _wrong_list(pw, labels):
    """[(label, passphrase)] that BIP38 regards as different from pw."""
    out = [(l, PWS[l]) for l in labels if _nfc(PWS[l]) != _nfc(pw)]
    if _folded(pw) is not None:
        out.append(('nfkc_of_itself', _folded(pw)))
    return out


def _call(f):
    try:
        return f(), None
    except Exception as e:
        return None, '%s: %s' % (type(e).__name__, str(e)[:100])


def _sec(label, seed):
    if label == 'one':
        return 1
    if label == 'n-1':
        return secp.N - 1
    h = hashlib.sha256(('C15|%d|%s' % (seed, label)).encode()).digest()
    if label.startswith('lz'):
        h = b'\x00' + h[1:]
    k = int.from_bytes(h, 'big') % secp.N
    return k or 1


# ----------------------------------------------------------------------------- plain mode
def sub_plain(case):
    """case = {'key': label, 'comp': bool, 'net': str, 'pw': label, 'wrong': [labels], 'seed': int}"""
    from bitcoinlib.keys import Key
    k = _sec(case['key'], case['seed'])
    comp, net, pw = case['comp'], case['net'], PWS[case['pw']]
    ver = nets.p2pkh_ver(net)
    devs, outs = [], []
    n = 0

    def dev(sig, **detail):
        detail.update(key='%064x' % k, compressed=comp, network=net, passphrase=pw)
        devs.append({'sig': sig, 'detail': detail})
    ref_enc = bip38.encrypt(k, comp, pw, ver)
    K = Key('%064x' % k, network=net, compressed=comp)
    lib_enc, exc = _call(lambda: K.encrypt(pw))
    n += 1
    if lib_enc is None:
        dev('Key.encrypt|raises', exc=exc)
        outs.append('encrypt_raises')
    elif lib_enc != ref_enc:
        if pw != _nfc(pw) and lib_enc == bip38.encrypt(k, comp, pw.encode('utf8'), ver):
            dev('Key.encrypt|passphrase_not_NFC_normalised', expected=ref_enc, got=lib_enc)
        else:
            dev('Key.encrypt|differs_from_specification|unexplained', expected=ref_enc, got=lib_enc)
        outs.append('encrypt_differs')
    else:
        outs.append('encrypt_ok')
    # decrypt the specification's string with the same passphrase
    r, exc = _call(lambda: Key(ref_enc, password=pw, network=net))
    n += 1
    if r is None:
        r2 = None
        if pw != _nfc(pw):
            r2, _ = _call(lambda: Key(ref_enc, password=_nfc(pw), network=net))
        if r2 is not None and (r2.secret, r2.compressed) == (k, comp):
            dev('Key(bip38)|right_passphrase_refused|passphrase_not_NFC_normalised', enc=ref_enc, exc=exc)
        else:
            dev('Key(bip38)|right_passphrase_refused|unexplained', enc=ref_enc, exc=exc)
        outs.append('decrypt_refused')
    elif (r.secret, r.compressed) != (k, comp):
        dev('Key(bip38)|wrong_key_or_flag', enc=ref_enc, got=['%064x' % r.secret, r.compressed])
        outs.append('decrypt_wrong')
    else:
        outs.append('decrypt_ok')
        if r.network.name != net:
            dev('Key(bip38)|network_lost', got=r.network.name)
    # every other passphrase must be refused
    for wl, w in _wrong_list(pw, case['wrong']):
        r, exc = _call(lambda: Key(ref_enc, password=w, network=net))
        n += 1
        if r is not None:
            dev('Key(bip38)|wrong_passphrase_accepted|%s%s' % ('same_key' if r.secret == k else 'other_key',
                                                                '|compatibility_folded' if wl == 'nfkc_of_itself' else ''),
                enc=ref_enc, wrong_passphrase=w, got='%064x' % r.secret)
            outs.append('wrong_pw_accepted')
        else:
            outs.append('wrong_pw_refused')
    return {'devs': devs, 'n': n, 'out': outs, 'trans': n, 'traces': 1}


# ----------------------------------------------------------------------------- prior calls on the key object
KEY_OPS = {
    'address': lambda k: k.address(),
    'address_base58': lambda k: k.address(encoding='base58'),
    'address_bech32': lambda k: k.address(encoding='bech32'),
    'address_p2sh': lambda k: k.address(script_type='p2sh'),
    'address_p2sh_p2wpkh': lambda k: k.address(script_type='p2sh_p2wpkh'),
    'address_uncompressed': lambda k: k.address_uncompressed(),
    'address_compressed': lambda k: k.address(compressed=True),
    'address_obj': lambda k: k.address_obj,
    'hash160': lambda k: k.hash160,
    'wif': lambda k: k.wif(),
    'public': lambda k: k.public(),
    'as_dict': lambda k: k.as_dict(include_private=True),
    'encrypt': lambda k: k.encrypt('other passphrase'),
}


def sub_hist(case):
    """case = {'key','comp','net','pw','seed','hists': [[op,..],..]}: every history of reading calls on ONE Key
    object, then encrypt: the result must be the reference encryption of the key as it was created."""
    from bitcoinlib.keys import Key
    import bitcoinlib.keys as K
    k = _sec(case['key'], case['seed'])
    comp, net, pw = case['comp'], case['net'], PWS[case['pw']]
    ver = nets.p2pkh_ver(net)
    ref_enc = bip38.encrypt(k, comp, pw, ver)
    devs, outs, states, nt = [], [], [], []
    seen = set()
    real = K.scrypt_hash
    memo = {}

    def memo_kdf(password, salt, key_len=64, N=16384, r=8, p=1, buflen=64):
        # the library's own scrypt, computed once per distinct input of this case (pure function)
        key = (bytes(password) if not isinstance(password, str) else password, bytes(salt), key_len, N, r, p)
        if key not in memo:
            memo[key] = real(password, salt, key_len, N, r, p)
        return memo[key]
    K.scrypt_hash = memo_kdf
    try:
        for hist in case['hists']:
            key = Key('%064x' % k, network=net, compressed=comp)
            raised = []
            for op in hist:
                _, exc = _call(lambda: KEY_OPS[op](key))
                raised.append(exc is not None)
            enc, exc = _call(lambda: key.encrypt(pw))
            a = key._address_obj
            states.append(json.dumps([comp, net, bool(key.compressed), a.encoding if a else None,
                                      a.script_type if a else None]))
            nt.append('/'.join(hist) or '-')
            if enc == ref_enc:
                outs.append('same_as_reference')
                continue
            last = [op for op, r in zip(hist, raised) if not r and op.startswith('address_')]
            if enc is None:
                sig = 'Key.encrypt after %s|raises' % _hist_class(hist)
            elif bool(key.compressed) != comp and enc == bip38.encrypt(k, not comp, pw, ver):
                # address(compressed=x) / address_uncompressed() switch the key object to that form (the C12 model
                # treats this as the library's semantics); the encryption is then the reference one for the
                # object's flag at the time of the call - not judged here
                outs.append('reference_for_flag_set_by_address_call')
                continue
            else:
                r = bip38.decrypt(enc, pw, ver)
                raw = codec.b58check_decode(enc)
                if r is None and raw is not None and a is not None and (a.encoding != 'base58' or a.script_type != 'p2pkh') \
                        and raw[3:7] == codec.dsha256(a.address.encode())[:4]:
                    sig = 'Key.encrypt after address(non-default)|hashes_cached_non_p2pkh_address'
                else:
                    sig = 'Key.encrypt after %s|differs_from_reference|unexplained' % _hist_class(hist)
            outs.append('differs')
            if sig not in seen:
                seen.add(sig)
                devs.append({'sig': sig, 'detail': {'history': hist, 'key': '%064x' % k, 'compressed': comp,
                                                    'network': net, 'passphrase': pw, 'expected': ref_enc, 'got': enc,
                                                    'exc': exc, 'last_address_calls': last}})
    finally:
        K.scrypt_hash = real
    return {'devs': devs, 'n': len(case['hists']), 'out': outs, 'nt': nt, 'states': sorted(set(states)),
            'trans': sum(len(h) + 1 for h in case['hists']), 'traces': len(case['hists'])}


def _hist_class(hist):
    return 'prior calls' if hist else 'no prior call'


# ----------------------------------------------------------------------------- EC-multiplied mode
def sub_ec(case):
    """case = {'pw': label, 'lot': int|None, 'seq': int|None, 'salt': hex, 'combos': [[comp, net, seedhex]..],
               'wrong': label}"""
    from bitcoinlib.keys import Key, bip38_intermediate_password, bip38_create_new_encrypted_wif
    pw = PWS[case['pw']]
    lot, seq, salt = case['lot'], case['seq'], bytes.fromhex(case['salt'])
    devs, outs = [], []
    n = 0

    def dev(sig, **detail):
        detail.update(passphrase=pw, lot=lot, sequence=seq, owner_salt=case['salt'])
        devs.append({'sig': sig, 'detail': detail})
    ref_ip = bip38.intermediate(pw, salt, lot, seq)
    ip, exc = _call(lambda: bip38_intermediate_password(pw, lot, seq, owner_salt=salt))
    n += 1
    if ip is None:
        dev('bip38_intermediate_password|raises', exc=exc)
        return {'devs': devs, 'n': n, 'out': ['intermediate_raises'], 'trans': n, 'traces': 1}
    if ip != ref_ip:
        cls = 'unexplained'
        for form in ('NFD', 'NFKC', 'NFKD'):      # which normalisation form reproduces the library's code
            alt = unicodedata.normalize(form, pw)
            if alt != _nfc(pw) and bip38.intermediate(alt.encode('utf8'), salt, lot, seq) == ip:
                cls = 'passphrase_normalised_%s_instead_of_NFC' % form
                break
        dev('bip38_intermediate_password|differs_from_specification|%s|%s' % (
            'lot_sequence' if lot is not None else 'no_lot', cls), expected=ref_ip, got=ip)
        outs.append('intermediate_differs')
    else:
        outs.append('intermediate_ok')
    for comp, net, seedhex in case['combos']:
        ver = nets.p2pkh_ver(net)
        res, exc = _call(lambda: bip38_create_new_encrypted_wif(ref_ip, comp, bytes.fromhex(seedhex), net))
        n += 1
        if res is None:
            dev('bip38_create_new_encrypted_wif|raises', exc=exc, compressed=comp, network=net, seed=seedhex)
            outs.append('create_raises')
            continue
        ew = res['encrypted_wif']
        rd = bip38.decrypt(ew, pw, ver)
        if rd is None:
            dev('bip38_create_new_encrypted_wif|not_decryptable_by_specification', encrypted=ew, compressed=comp,
                network=net, seed=seedhex)
            outs.append('create_bad')
            continue
        k, rcomp = rd
        addr = bip38._addr(secp.pub(k), comp, ver)
        # the specification fixes the key: passfactor * SHA256d(seedb)
        inter = codec.b58check_decode(ref_ip)
        passpoint = secp.decode_pub(inter[16:])
        factorb = int.from_bytes(codec.dsha256(bytes.fromhex(seedhex)), 'big')
        exp_pub = secp.ser(secp.mul(factorb, passpoint), comp)
        if rcomp != comp or res.get('address') != addr or secp.ser(secp.pub(k), comp) != exp_pub or \
                bytes.fromhex(res.get('public_key', '')) != exp_pub:
            dev('bip38_create_new_encrypted_wif|key_flag_or_address_differs_from_specification', encrypted=ew,
                compressed=comp, network=net, seed=seedhex, address=[res.get('address'), addr])
            outs.append('create_differs')
            continue
        outs.append('create_ok')
        r, exc = _call(lambda: Key(ew, password=pw, network=net))
        n += 1
        if r is None:
            r2 = None
            if pw != _nfc(pw):
                r2, _ = _call(lambda: Key(ew, password=_nfc(pw), network=net))
            if r2 is not None and (r2.secret, r2.compressed) == (k, comp):
                dev('Key(bip38 ec-multiplied)|right_passphrase_refused|passphrase_not_NFC_normalised', encrypted=ew,
                    network=net, exc=exc)
            elif net != 'bitcoin' and 'Address hash has invalid checksum' in exc:
                dev('Key(bip38 ec-multiplied)|right_passphrase_refused|network_not_bitcoin', encrypted=ew,
                    network=net, exc=exc)
            else:
                dev('Key(bip38 ec-multiplied)|right_passphrase_refused|unexplained', encrypted=ew, network=net, exc=exc)
            outs.append('decrypt_refused')
        elif (r.secret, r.compressed) != (k, comp):
            dev('Key(bip38 ec-multiplied)|wrong_key_or_flag', encrypted=ew, got=['%064x' % r.secret, r.compressed])
            outs.append('decrypt_wrong')
        else:
            outs.append('decrypt_ok')
        for wl, w in _wrong_list(pw, [case['wrong']]):
            r, exc = _call(lambda: Key(ew, password=w, network=net))
            n += 1
            if r is not None:
                dev('Key(bip38 ec-multiplied)|wrong_passphrase_accepted%s' % (
                    '|compatibility_folded' if wl == 'nfkc_of_itself' else ''), encrypted=ew, wrong_passphrase=w)
                outs.append('wrong_pw_accepted')
            else:
                outs.append('wrong_pw_refused')
    return {'devs': devs, 'n': n, 'out': outs, 'trans': n, 'traces': 1}


# ----------------------------------------------------------------------------- passphrase text shapes
# A BIP38 passphrase is TEXT: its bytes are the UTF-8 encoding of its NFC form, whatever the text looks like. The
# classes below are the texts that a lenient converter ("hex string or text", "base58 or text", "number or text",
# strip / split, case folding, falsy test) would turn into something else. Seed-independent.
_B58 = '123456789ABCDEFGHJKLMNPQRSTUVWXYZabcdefghijkmnopqrstuvwxyz'
SHAPES = {
    'pin': '123456',                    # decimal digits, even count: a hex string, a base58 string, a number
    'pin_zeros': '00000000',            # hex for four zero bytes, the number 0
    'hex_lower': 'deadbeef',            # hex (and base58) letters only
    'hex_upper': 'CAFE',
    'hex_spaced': 'de ad be ef',        # hex with blanks (bytes.fromhex skips them)
    'hex_odd': 'abcde',                 # odd number of hex digits: not a hex string
    'hex_key': hashlib.sha256(b'C15|shape|hex_key').hexdigest(),      # 64 hex digits: looks like a private key
    'wif': codec.b58check_encode(b'\x80' + hashlib.sha256(b'C15|shape|wif').digest() + b'\x01'),   # looks like a WIF
    'padded': ' Testing One ',          # leading, inner and trailing blank
    'zero': '0',                        # a single digit: falsy as a number
    'empty': '',                        # the empty passphrase (falsy; also the default of Key(.., password=''))
}
SHAPE_CLASSES = list(SHAPES)
REINTERPRETATIONS = ['hex_decoded', 'whitespace_stripped', 'whitespace_removed', 'case_swapped',
                     'decimal_normalised', 'base58_decoded']


def _pwbytes(pw):
    return pw if isinstance(pw, bytes) else _nfc(pw).encode('utf8')


def _reinterpretations(text):
    """[(name, passphrase)]: what a lenient converter would make of the text - only the results that BIP38 regards
    as a DIFFERENT passphrase (other bytes than the UTF-8 of the NFC form), each distinct value once."""
    cand = []
    try:
        cand.append(('hex_decoded', bytes.fromhex(text)))
    except ValueError:
        pass
    cand.append(('whitespace_stripped', text.strip()))
    cand.append(('whitespace_removed', ''.join(text.split())))
    cand.append(('case_swapped', text.swapcase()))
    if text.isdigit():
        cand.append(('decimal_normalised', str(int(text))))
    if text and all(c in _B58 for c in text):
        cand.append(('base58_decoded', codec.b58decode(text)))
    out, seen = [], {_pwbytes(text)}
    for name, v in cand:
        if v is None or _pwbytes(v) in seen:
            continue
        seen.add(_pwbytes(v))
        out.append((name, v))
    return out


class _Memo:
    """Within one case: the library's own scrypt and the reference's scrypt are each computed once per distinct
    input (pure functions; all call sites of one case use the same passphrase and salt when they are right)."""

    def __enter__(self):
        import bitcoinlib.keys as K
        self.K, self.real, self.ref_real = K, K.scrypt_hash, bip38._scrypt
        lib, ref = {}, {}

        def lib_kdf(password, salt, key_len=64, N=16384, r=8, p=1, buflen=64):
            key = (password if isinstance(password, str) else bytes(password), bytes(salt), key_len, N, r, p)
            if key not in lib:
                lib[key] = self.real(password, salt, key_len, N, r, p)
            return lib[key]

        def ref_kdf(pw, salt, n, r, p, ln):
            key = (bytes(pw), bytes(salt), n, r, p, ln)
            if key not in ref:
                ref[key] = self.ref_real(pw, salt, n, r, p, ln)
            return ref[key]
        K.scrypt_hash = lib_kdf
        bip38._scrypt = ref_kdf
        return self

    def __exit__(self, *a):
        self.K.scrypt_hash = self.real
        bip38._scrypt = self.ref_real


def sub_shape(case):
    """case = {'shape': label, 'mode': 'plain'|'ec', 'key', 'comp', 'net', 'seed', 'wrong': bool,
               ec only: 'lot', 'seq', 'salt', 'seedb', 'decrypt': bool}
    One passphrase text, given as str and as its UTF-8 bytes, at every entry point that takes a passphrase."""
    with _Memo():
        return _shape(case)


def _shape(case):
    from bitcoinlib.keys import (Key, HDKey, bip38_encrypt, bip38_decrypt, bip38_intermediate_password,
                                 bip38_create_new_encrypted_wif)
    text = SHAPES[case['shape']]
    comp, net, ec = case['comp'], case['net'], case['mode'] == 'ec'
    ver = nets.p2pkh_ver(net)
    forms = [('str', text), ('bytes', _pwbytes(text))]
    alts = _reinterpretations(text)
    wrongs = alts if case.get('wrong') else []
    devs, outs, nt = [], [], []
    cnt = [0]

    def dev(site, form, cls, **detail):
        detail.update(shape=case['shape'], passphrase=text, passed_as=form, compressed=comp, network=net)
        devs.append({'sig': '%s%s|%s' % (site, '|bytes_passphrase' if form == 'bytes' else '', cls), 'detail': detail})

    def ev(site, form):
        cnt[0] += 1
        nt.append('%s/%s/%s/%s/%s/%s/%s' % (case['mode'], case['shape'], form, site, 'c' if comp else 'u', net,
                                            case.get('lot')))

    def as_alt(name):
        return 'passphrase_%s_instead_of_utf8_text' % name

    def judge_decrypt(site, fn, enc, k, enc_for_alt, refuses_wrong=True):
        """fn(enc, pw) -> (secret, flag); right passphrase in both forms, then every reinterpretation as wrong one."""
        for form, pw in forms:
            r, exc = _call(lambda: fn(enc, pw))
            ev(site, form)
            if r is None:
                cls = 'unexplained'
                for name, alt in alts:          # does it open what the specification encrypts under a reinterpretation?
                    ea = enc_for_alt(alt)
                    ra, _ = _call(lambda: fn(ea[0], pw)) if ea else (None, None)
                    if ra is not None and ra == ea[1]:
                        cls = as_alt(name)
                        break
                dev(site, form, 'right_passphrase_refused|' + cls, encrypted=enc, exc=exc)
                outs.append('shape_decrypt_refused')
            elif r != (k, comp):
                dev(site, form, 'wrong_key_or_flag', encrypted=enc, got=['%064x' % r[0], r[1]])
                outs.append('shape_decrypt_wrong')
            else:
                outs.append('shape_decrypt_ok')
        for name, w in (wrongs if refuses_wrong else []):
            r, exc = _call(lambda: fn(enc, w))
            ev(site, 'wrong:' + name)
            if r is not None:
                dev(site, 'str', 'wrong_passphrase_accepted|%s_form_of_the_passphrase' % name, encrypted=enc,
                    wrong_passphrase=w.hex() if isinstance(w, bytes) else w, got='%064x' % r[0])
                outs.append('shape_wrong_accepted')
            else:
                outs.append('shape_wrong_refused')

    def kc(cls, **kw):
        return lambda enc, pw: (lambda o: (o.secret, bool(o.compressed)))(cls(enc, password=pw, network=net, **kw))

    if not ec:
        k = _sec(case['key'], case['seed'])
        hexk = '%064x' % k
        ref_enc = bip38.encrypt(k, comp, text, ver)
        addr = bip38._addr(secp.pub(k), comp, ver)
        flag = b'\xe0' if comp else b'\xc0'
        alt_enc = {}

        def enc_alt(alt):
            b = _pwbytes(alt)
            if b not in alt_enc:
                alt_enc[b] = bip38.encrypt(k, comp, b, ver)
            return alt_enc[b]
        enc_sites = [('Key.encrypt', lambda pw: Key(hexk, network=net, compressed=comp).encrypt(pw)),
                     ('HDKey.encrypt', lambda pw: HDKey(hexk, network=net, compressed=comp).encrypt(pw)),
                     ('bip38_encrypt()', lambda pw: bip38_encrypt(hexk, addr, pw, flag))]
        for site, fn in enc_sites:
            for form, pw in forms:
                got, exc = _call(lambda: fn(pw))
                ev(site, form)
                if got is None:
                    dev(site, form, 'raises', exc=exc)
                    outs.append('shape_encrypt_raises')
                elif got != ref_enc:
                    cls = 'unexplained'
                    for name, alt in alts:
                        if enc_alt(alt) == got:
                            cls = as_alt(name)
                            break
                    dev(site, form, 'differs_from_specification|' + cls, expected=ref_enc, got=got)
                    outs.append('shape_encrypt_differs')
                else:
                    outs.append('shape_encrypt_ok')
        judge_decrypt('Key(bip38)', kc(Key), ref_enc, k, lambda alt: (enc_alt(alt), (k, comp)))
        judge_decrypt('HDKey(bip38)', kc(HDKey, witness_type='legacy'), ref_enc, k, lambda alt: (enc_alt(alt), (k, comp)))
        # the function does not verify the address hash in this mode: only the right passphrase is judged
        judge_decrypt('bip38_decrypt()', lambda enc, pw: (lambda r: (int.from_bytes(r[0], 'big'), bool(r[2])))(
            bip38_decrypt(enc, pw, net)), ref_enc, k, lambda alt: (enc_alt(alt), (k, comp)), refuses_wrong=False)
        return {'devs': devs, 'n': cnt[0], 'out': outs, 'nt': nt, 'trans': cnt[0], 'traces': 1}

    # EC-multiplied mode
    lot, seq, salt, seedb = case['lot'], case['seq'], bytes.fromhex(case['salt']), bytes.fromhex(case['seedb'])
    lotcls = 'lot_sequence' if lot is not None else 'no_lot'
    ref_ip = bip38.intermediate(text, salt, lot, seq)
    site = 'bip38_intermediate_password'
    for form, pw in forms:
        ip, exc = _call(lambda: bip38_intermediate_password(pw, lot, seq, owner_salt=salt))
        ev(site, form)
        if ip is None and form == 'bytes':
            outs.append('shape_intermediate_bytes_refused')     # documented type is str: a refusal is not judged
        elif ip is None:
            dev(site, form, 'raises', exc=exc, lot=lot, sequence=seq)
            outs.append('shape_intermediate_raises')
        elif ip != ref_ip:
            cls = 'unexplained'
            for name, alt in alts:
                if bip38.intermediate(_pwbytes(alt), salt, lot, seq) == ip:
                    cls = as_alt(name)
                    break
            dev(site, form, 'differs_from_specification|%s|%s' % (lotcls, cls), expected=ref_ip, got=ip)
            outs.append('shape_intermediate_differs')
        else:
            outs.append('shape_intermediate_ok')
    if not case.get('decrypt'):
        return {'devs': devs, 'n': cnt[0], 'out': outs, 'nt': nt, 'trans': cnt[0], 'traces': 1}

    def create(passphrase):
        """(encrypted key made by the library from the REFERENCE intermediate code, (key, flag) the reference
        decrypts it to) or None"""
        code = ref_ip if passphrase is None else bip38.intermediate(_pwbytes(passphrase), salt, lot, seq)
        res, _ = _call(lambda: bip38_create_new_encrypted_wif(code, comp, seedb, net))
        rd = bip38.decrypt(res['encrypted_wif'], text if passphrase is None else _pwbytes(passphrase), ver) if res else None
        return (res['encrypted_wif'], rd) if rd else None
    made = create(None)
    cnt[0] += 1
    if made is None or made[1][1] != comp:
        dev('bip38_create_new_encrypted_wif', 'str', 'not_decryptable_by_specification', lot=lot, sequence=seq)
        outs.append('shape_create_bad')
        return {'devs': devs, 'n': cnt[0], 'out': outs, 'nt': nt, 'trans': cnt[0], 'traces': 1}
    ew, (k, _) = made
    outs.append('shape_create_ok')
    judge_decrypt('Key(bip38 ec-multiplied)', kc(Key), ew, k, create)
    judge_decrypt('HDKey(bip38 ec-multiplied)', kc(HDKey, witness_type='legacy'), ew, k, create)
    judge_decrypt('bip38_decrypt(ec-multiplied)', lambda enc, pw: (lambda r: (int.from_bytes(r[0], 'big'), bool(r[2])))(
        bip38_decrypt(enc, pw, net)), ew, k, create)
    return {'devs': devs, 'n': cnt[0], 'out': outs, 'nt': nt, 'trans': cnt[0], 'traces': 1}


# ----------------------------------------------------------------------------- published vectors
def _vectors():
    with open(os.path.join(os.path.dirname(bip38.__file__), 'vectors', 'bip38_protected_key_tests.json')) as f:
        vec = json.load(f)['valid']
    # the unicode vector of the BIP text: passphrase given decomposed (as in the BIP) and precomposed
    uni = {'bip38': '6PRW5o9FLp4gJDDVqJQKJFTpMvdsSGJxMYHtHaQBF3ooa8mwD69bapcDQn',
           'wif': '5Jajm8eQ22H3pGWLEVCXyvND8dQZhiQhoLJNKjYXk9roUFTMSZ4'}
    vec.append(dict(uni, passphrase=PWS['vector'], description='BIP38 unicode vector, passphrase decomposed'))
    vec.append(dict(uni, passphrase=_nfc(PWS['vector']), description='BIP38 unicode vector, passphrase NFC'))
    return vec


def sub_vector(case):
    from bitcoinlib.keys import Key
    v = _vectors()[case]
    wif = codec.b58check_decode(v['wif'])
    comp = len(wif) == 34
    k = int.from_bytes(wif[1:33], 'big')
    devs, outs = [], []
    r, exc = _call(lambda: Key(v['bip38'], password=v['passphrase']))
    if r is None or (r.secret, r.compressed) != (k, comp):
        devs.append({'sig': 'Key(bip38)|published_vector_fails', 'detail': {'vector': v['description'], 'exc': exc}})
        outs.append('vector_fails')
    else:
        outs.append('vector_ok')
    n = 1
    if 'passphrase_code' not in v:
        e, exc = _call(lambda: Key(v['wif']).encrypt(v['passphrase']))
        n += 1
        if e != v['bip38']:
            devs.append({'sig': 'Key.encrypt|published_vector_fails', 'detail': {'vector': v['description'],
                                                                                  'got': e, 'exc': exc}})
    r, exc = _call(lambda: Key(v['bip38'], password=v['passphrase'] + ' '))
    n += 1
    if r is not None:
        devs.append({'sig': 'Key(bip38)|wrong_passphrase_accepted|vector', 'detail': {'vector': v['description']}})
    return {'devs': devs, 'n': n, 'out': outs, 'trans': n, 'traces': 1}


# ----------------------------------------------------------------------------- freshness (history search)
class _Counting:
    """Deterministic entropy source that records every draw."""

    def __init__(self):
        self.count = 0
        self.nbytes = 0
        self.log = []
        self.phase = 'import'

    def urandom(self, n):
        self.count += 1
        self.nbytes += n
        out = hashlib.shake_256(b'C15-entropy|%d' % self.count).digest(n) if n else b''
        self.log.append([self.phase, n, out.hex()])
        return out


OPS = ['intermediate', 'create', 'key_encrypt', 'hdkey']

_CHILD = r'''
import sys, os, json, hashlib, random
sys.dont_write_bytecode = True
sys.path.insert(0, %(verif)r)
if %(repo)r:
    sys.path.insert(0, %(repo)r)
from vf.checks import c15
src = c15._Counting()
os.urandom = src.urandom            # installed BEFORE bitcoinlib is imported
random._urandom = src.urandom       # what random.SystemRandom reads
assert 'bitcoinlib' not in sys.modules and 'bitcoinlib.keys' not in sys.modules
import logging
logging.disable(logging.CRITICAL)
import bitcoinlib.keys as K
from vf.ref import codec
def fake_kdf(password, salt, key_len=64, N=16384, r=8, p=1, buflen=64):
    if isinstance(password, str):
        password = password.encode('utf8')
    return hashlib.shake_256(b'kdf|%%d|%%d|%%d|' %% (N, r, p) + bytes(password) + b'|' + bytes(salt)).digest(key_len)
K.scrypt_hash = fake_kdf
CODE = K.bip38_intermediate_password('freshness', owner_salt=bytes(range(8)))   # explicit salt: no entropy needed
import_draws = list(src.log)
hist = %(hist)r
calls = []
for i, op in enumerate(hist):
    src.phase = 'call%%d' %% i
    before = src.count
    if op == 'intermediate':
        out = K.bip38_intermediate_password('freshness')
        raw = codec.b58check_decode(out)
        rec = {'out': out, 'entropy': raw[8:16].hex()}
    elif op == 'create':
        d = K.bip38_create_new_encrypted_wif(CODE)
        rec = {'out': d['encrypted_wif'], 'entropy': bytes(d['seed']).hex()}
    elif op == 'key_encrypt':
        k = K.Key()
        rec = {'out': k.encrypt('freshness'), 'entropy': '%%064x' %% k.secret}
    elif op == 'hdkey':
        k = K.HDKey()
        rec = {'out': k.wif(is_private=True), 'entropy': '%%064x' %% k.secret}
    rec['op'] = op
    rec['draws'] = src.count - before
    calls.append(rec)
print('RESULT ' + json.dumps({'import_draws': import_draws, 'calls': calls, 'log': src.log}))
'''


def sub_fresh(case):
    """case = {'cfg': .., 'hist': [op names]}: run the history in a fresh interpreter, judge every call."""
    hist = case['hist']
    verif = os.path.dirname(os.path.dirname(os.path.dirname(os.path.abspath(__file__))))
    script = _CHILD % {'verif': verif, 'repo': os.environ.get('VERIF_REPO', ''), 'hist': hist}
    env = dict(os.environ, PYTHONHASHSEED='0')
    p = subprocess.run([sys.executable, '-c', script], capture_output=True, text=True, env=env, timeout=600)
    line = [l for l in p.stdout.splitlines() if l.startswith('RESULT ')]
    if p.returncode != 0 or not line:
        raise RuntimeError('freshness child failed: rc=%s\n%s\n%s' % (p.returncode, p.stdout[-2000:], p.stderr[-3000:]))
    res = json.loads(line[-1][7:])
    imp = set(d[2] for d in res['import_draws'])
    devs, outs = [], []
    seen = {}
    for i, c in enumerate(res['calls']):
        op = c['op']
        stale = c['draws'] == 0 and c['entropy'] in imp
        if c['draws'] == 0:
            if stale:
                devs.append({'sig': '%s|entropy_is_default_argument_drawn_at_import' % _site(op),
                             'detail': {'history': hist, 'call': i, 'entropy': c['entropy'],
                                        'drawn_at_import': res['import_draws']}})
                outs.append('stale_default')
            else:
                devs.append({'sig': '%s|no_entropy_drawn|unexplained' % _site(op),
                             'detail': {'history': hist, 'call': i, 'entropy': c['entropy']}})
                outs.append('no_draw')
        else:
            outs.append('fresh_draw')
        key = (op, c['out'])
        if key in seen:
            first = res['calls'][seen[key]]
            if not (stale and first['draws'] == 0):      # otherwise already reported by the signature above
                devs.append({'sig': '%s|same_output_twice|unexplained' % _site(op),
                             'detail': {'history': hist, 'calls': [seen[key], i], 'output': c['out']}})
            outs.append('repeat')
        else:
            seen[key] = i
        for j in range(i):
            o = res['calls'][j]
            if o['op'] != op and o['entropy'] == c['entropy']:
                devs.append({'sig': '%s|entropy_shared_with_other_call|unexplained' % _site(op),
                             'detail': {'history': hist, 'calls': [j, i]}})
    # canonical state: multiset of calls with the equality class of their outputs
    cls, canon = {}, []
    for c in res['calls']:
        per_op = cls.setdefault(c['op'], {})
        per_op.setdefault(c['out'], len(per_op))
        canon.append([c['op'], per_op[c['out']], c['draws'] > 0])
    state = sorted(canon)
    return {'devs': _uniq(devs), 'n': max(1, len(hist)), 'out': outs or ['empty'], 'nt': ['/'.join(hist) or '-'],
            'ret': {'state': state, 'enabled': OPS}}


def _site(op):
    return {'intermediate': 'bip38_intermediate_password()', 'create': 'bip38_create_new_encrypted_wif()',
            'key_encrypt': 'Key().encrypt()', 'hdkey': 'HDKey()'}[op]


def _uniq(devs):
    out, seen = [], set()
    for d in devs:
        if d['sig'] not in seen:
            seen.add(d['sig'])
            out.append(d)
    return out


def worker_init():
    import logging
    logging.disable(logging.CRITICAL)


SUBS = {'plain': sub_plain, 'hist': sub_hist, 'ec': sub_ec, 'shape': sub_shape, 'vectors': sub_vector,
        'fresh': sub_fresh}


# ----------------------------------------------------------------------------- enumeration
def run(ctx):
    q = ctx.quick
    seed = ctx.seed
    only = getattr(ctx, 'only', None)

    def want(name):
        return not only or name in only
    # ---- plain mode: thorough = full product; quick = every (key, flag, network) combination with two passphrase
    # classes assigned in rotation, so that every passphrase class occurs with every key, flag and network
    keys = ['one', 'n-1', 'lz-seeded'] if q else ['one', 'n-1', 'lz-seeded', 'w0', 'w1', 'w2']
    netsl = ['bitcoin', 'litecoin'] if q else NETS
    pws = PW_CLASSES
    cases = []
    ci = 0
    for kl in keys:
        for comp in (True, False):
            for net in netsl:
                sel = [pws[(2 * ci) % len(pws)], pws[(2 * ci + 1) % len(pws)]] if q else pws
                ci += 1
                for pl in sel:
                    i = pws.index(pl)
                    wrong = [pws[(i + 1) % len(pws)]] if q else [x for x in pws if x != pl]
                    cases.append({'key': kl, 'comp': comp, 'net': net, 'pw': pl, 'wrong': wrong, 'seed': seed})
    assert set(c['pw'] for c in cases) == set(pws)
    if want('plain'):
        ctx.pmap('plain', cases, chunk=1)
    ctx.note('bounds_plain', {'keys': keys, 'flags': 2, 'networks': netsl, 'passphrase_classes': pws,
                              'product': 'rotation: 2 classes per (key, flag, network)' if q else 'full',
                              'wrong_passphrases_per_case': ('next class' if q else 'all other classes') +
                              ' + its own NFKC folding when that differs', 'cases': len(cases)})
    # ---- prior calls on the key object, then encrypt (history on one live object)
    hops = list(KEY_OPS)
    hists = [[]] + [[o] for o in hops]
    if not q:
        hists += [[o1, o2] for o1 in hops for o2 in hops]
    hcases = []
    hsel = [('lz-seeded', True, 'bitcoin', 'ascii'), ('n-1', False, 'litecoin', 'nfc')]
    if not q:
        hsel += [('one', True, 'testnet', 'compat'), ('w0', False, 'bitcoin', 'nfd'), ('w1', True, 'dogecoin', 'vector')]
    for kl, comp, net, pl in hsel:
        for j in range(0, len(hists), 16):
            hcases.append({'key': kl, 'comp': comp, 'net': net, 'pw': pl, 'seed': seed, 'hists': hists[j:j + 16]})
    if want('hist'):
        ctx.pmap('hist', hcases, chunk=1)
    ctx.note('bounds_hist', {'ops': hops, 'max_prior_calls': 1 if q else 2, 'histories_per_key': len(hists),
                             'keys': [list(x) for x in hsel]})
    # ---- EC multiplied: every passphrase class in both lot modes (intermediate code compared with the reference);
    # thorough = full product with compression x network x seed; quick = ASCII gets the full compression x network
    # product, the other classes one (compression, network) combination each, assigned in rotation
    def salt(tag, n):
        return hashlib.sha256(('C15|%d|salt|%s' % (seed, tag)).encode()).digest()[:n].hex()

    def seedb(tag):
        return hashlib.sha256(('C15|%d|seedb|%s' % (seed, tag)).encode()).digest()[:24].hex()
    lots = [(None, None), (100000, 1)] if q else [(None, None), (100000, 1), (999999, 4095)]
    if not q and seed:
        lots.append((100000 + seed % 899999, 1 + seed % 4095))
    epws = PW_CLASSES
    enets = ['bitcoin', 'litecoin'] if q else NETS
    seeds = [seedb('a')] if q else [seedb('a'), '00' * 24]
    allc = [[c, n, sd] for c in (True, False) for n in enets for sd in seeds]
    flat = []
    gi = 0
    for pi, pl in enumerate(epws):
        for lot, seq in lots:
            salts = [salt('s', 8 if lot is None else 4)] + ([] if (q or pl != 'ascii') else ['00' * (8 if lot is None else 4)])
            for sl in salts:
                combos = allc if (not q or pl == 'ascii') else [allc[gi % len(allc)]]
                gi += 1
                # one case per (group, combination) keeps the scrypt work spread over the workers
                for combo in combos:
                    flat.append({'pw': pl, 'lot': lot, 'seq': seq, 'salt': sl, 'combos': [combo],
                                 'wrong': epws[(pi + 1) % len(epws)]})
    assert set((c['pw'], c['lot'] is None) for c in flat) == set((x, y) for x in epws for y in (True, False))
    if want('ec'):
        ctx.pmap('ec', flat, chunk=1)
    ctx.note('bounds_ec', {'passphrase_classes': epws, 'lot_sequence': lots, 'networks': enets, 'seeds': len(seeds),
                           'product': 'ASCII full, other classes one rotating (flag, network)' if q else 'full',
                           'cases': len(flat)})
    # ---- passphrase text shapes x passphrase type {str, UTF-8 bytes} x every entry point that takes a passphrase.
    # quick: every shape once in plain mode (key, flag, network in rotation) and in BOTH lot modes of the
    # EC-multiplied mode (intermediate code; generated key decrypted in one lot mode, in rotation); thorough: full
    # product with flag x network resp. lot mode x flag x network.
    skeys = ['one', 'n-1', 'lz-seeded']
    scases = []
    for i, sh in enumerate(SHAPE_CLASSES):
        combos = [(i % 2 == 0, netsl[(i // 2) % len(netsl)])] if q else [(c, n) for c in (True, False) for n in NETS]
        for j, (comp, net) in enumerate(combos):
            scases.append({'shape': sh, 'mode': 'plain', 'key': skeys[(i + j) % len(skeys)], 'comp': comp, 'net': net,
                           'seed': seed, 'wrong': True})
    for i, sh in enumerate(SHAPE_CLASSES):
        for li, (lot, seq) in enumerate(lots):
            full = not q or li == i % len(lots)
            combos = [((i // 2) % 2 == 0, enets[i % len(enets)])] if q else [(c, n) for c in (True, False)
                                                                            for n in ('bitcoin', 'litecoin')]
            for comp, net in combos:
                scases.append({'shape': sh, 'mode': 'ec', 'comp': comp, 'net': net, 'lot': lot, 'seq': seq,
                               'salt': salt('shape', 8 if lot is None else 4), 'seedb': seedb('shape'),
                               'decrypt': full, 'wrong': full})
    # every reinterpretation occurs: as wrong passphrase in plain mode, in both lot modes of the intermediate code,
    # and as wrong passphrase of a generated EC-multiplied key
    for sel in (lambda c: c['mode'] == 'plain', lambda c: c['mode'] == 'ec' and c['lot'] is None,
                lambda c: c['mode'] == 'ec' and c['lot'] is not None, lambda c: c['mode'] == 'ec' and c['decrypt']):
        assert set(n for c in scases if sel(c) for n, _ in _reinterpretations(SHAPES[c['shape']])) == set(REINTERPRETATIONS)
    if want('shape'):
        # the cases with the most scrypt evaluations first (better packing; the set of cases is the same)
        ctx.pmap('shape', sorted(scases, key=lambda c: (c['mode'] == 'ec' and not c['decrypt'])), chunk=1)
    ctx.note('bounds_shape', {'shapes': {c: SHAPES[c] for c in SHAPE_CLASSES}, 'passed_as': ['str', 'utf-8 bytes'],
                              'reinterpretations_as_wrong_passphrases': REINTERPRETATIONS,
                              'sites_plain': ['Key.encrypt', 'HDKey.encrypt', 'bip38_encrypt()', 'Key(bip38)',
                                              'HDKey(bip38)', 'bip38_decrypt()'],
                              'sites_ec': ['bip38_intermediate_password', 'Key(bip38 ec-multiplied)',
                                           'HDKey(bip38 ec-multiplied)', 'bip38_decrypt(ec-multiplied)'],
                              'lot_sequence': lots,
                              'product': ('plain: one rotating (key, flag, network) per shape; ec: intermediate code in '
                                          'every lot mode, generated key decrypted in one rotating lot mode') if q
                              else 'plain: flag x 4 networks; ec: lot modes x flag x 2 networks, all decrypted',
                              'cases': len(scases)})
    # ---- published vectors
    if want('vectors'):
        ctx.pmap('vectors', list(range(len(_vectors()))), chunk=1)
    # ---- freshness: explicit-state search over call histories
    if want('fresh'):
        depth = 3
        ns = ctx.bfs('fresh', {'ops': OPS}, depth)
        ctx.note('bounds_fresh', {'ops': OPS, 'max_history_length': depth, 'states': ns})
