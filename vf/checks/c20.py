"""C20 The service layer fails over between providers and never fabricates answers; cache answers
equal what was stored.

E3 environment-answer enumeration (every assignment of provider outcomes, every forced provider order,
every min/max provider and error-limit setting) + E2 exploration of cache states over short call
histories, executed on the real `bitcoinlib.services.services.Service` / `Cache` with scripted fake
provider client classes, compared with a reference failover function and a dict model of the cache
written here from the property text and the documented semantics.
"""
import itertools
import json
import logging
import os
import types
from datetime import datetime as _real_datetime, timedelta, timezone

from vf import env
from vf.ref import tx as rtx, secp, codec, addr as raddr

ID = 'C20'
LEVEL = 'model_checking'
RULE = ('fault enumeration: for k<=4 scripted providers every assignment of outcome classes '
        '{ok, ClientError, other exception (timeout), False, method-specific empty, malformed} (plus, in a '
        'separate sub-space, {AttributeError, None, method missing, no url, api key needed}) in '
        'deviation-bounded order, for every query method, provider order (priorities incl. ties with '
        'random.random / random.shuffle forced to every permutation), min/max_providers and max_errors, '
        'cache disabled and cold; cache exploration: every history up to the stated length over '
        '{query this key, query another key, advance the clock past an expiry, reopen the service} x '
        'provider health, from a fresh sqlite cache; request windows: one block of five transactions is '
        'requested through every (parse_transactions, page, limit, id form) window that cuts it differently, '
        'so the cache is filled through one window and read through another (page absent / partly / completely '
        'cached); batched queries: getbalance over address lists of every shape (number of addresses x '
        'addresses_per_request: one request, one address per request, a last request of exactly one address, '
        'r == n, r > n, six addresses with the default five) in several address orders, inside cache histories, the '
        'total compared with the provider answers for exactly the requests made plus the cached balances of the '
        'addresses not requested, and the cached record of every address inspected after every query; incomplete '
        'provider answers: the providers\' copies of one / several / all transactions of the chain lack the input '
        'values, the block time or the block height (every transaction x every form; from all providers, from the '
        'first provider only, from all but the first), so that a RESPONDING provider\'s answer is refused by the '
        'cache and the cache stays partly filled after a successful query; every history over {address history of '
        'two addresses (whole / limited), balance, unspent outputs, the transaction itself, its block} x provider '
        'health, every call judged as before and the coverage claim (last_block) of the cached address records '
        'checked against the transactions the cache may hold; answers the service limits or replaces: the fee '
        'estimate of a responding provider lies in every value class relative to the fee range of the network '
        'definition (1, below the lowest fee, lowest-1, lowest, lowest+1, highest-1, highest, highest+1, far above, a '
        'different class per fee class / per provider), on a network with and one without a default fee, so that '
        'the provider\'s figure, the answer of the call and the stored figure can differ; every history over '
        '{estimate for 1 / 3 / 5 / default / 10 / 25 blocks and by priority} x provider health (incl. a first provider '
        'answering 0 / None) x {reopen, +61 s, +601 s}, the answer of a call that asked a provider must be that '
        'provider\'s figure or that figure limited to the range, the answer of a call that asked nobody must be '
        'exactly the answer the storing call returned; the same value classes under every failure pattern of k<=3 '
        'providers.  A state is a distinct (configuration, fault '
        'assignment, cache state) combination, a transition is one Service call executed on the real '
        'code, every executed call is compared with the reference failover function / cache model; an '
        'evaluation is non-trivial when at least one provider method was invoked or a cached answer was served')
ASSUMPTIONS = [
    'reference failover function and cache model are written in this module from the property text and the '
    'docstrings of Service/Cache (max_errors = "fail service request when errors occur for max_errors '
    'providers", blockcount cached 60 s, fee estimates cached 600 s per low/medium/high bucket, confirmed '
    'transactions cached indefinitely); self-test checks them on hand-computed cases',
    'a call "fails" when it raises (any exception) or returns the library\'s no-answer sentinel `False` from a '
    'method whose answers are not booleans/numbers; only data that no responding provider returned counts as '
    'fabricated',
    'an error limit reached by a provider that answered `False` (empty response) may or may not abort the '
    'call (the text only says the limit is reached "first"); reached by a raising provider it must',
    'an AttributeError raised inside a provider is treated like an unsupported method: the provider is '
    'skipped; whether it is listed in `errors` / counted is not demanded',
    '`[]`, `0`, `{}`, `None`, \'\' and wrong-typed answers are answers of a responding provider: passing them '
    'through unchanged, skipping that provider as failed, or failing the call are all accepted; altering them is not',
    'estimatefee: whether the estimate of a responding provider is returned as it is or limited to the fee range '
    '(fee_min .. fee_max of the network definition, golden copy FEE_BOUNDS in this module) is fee policy: both are '
    'accepted for a call that asked a provider, any other figure is not; the treatment of a falsy estimate (0/None) '
    'answered by a provider (network default fee, or failure) is fee policy too and the figure returned for it may be '
    'cached.  Whatever the policy is, a later call answered without asking a provider must return exactly the figure '
    'the storing call returned (per fee class, for 600 s)',
    'estimatefee cache keys are the three documented buckets (<=1, <=5, >5 blocks); aliasing inside a '
    'bucket is not judged.  Without a priority the providers must be asked for exactly the number of blocks of the '
    'call (default 5); which number a priority stands for is not documented and free, as long as \'low\' is a target '
    'of the class low (> 5 blocks) and \'high\' is not',
    'max_providers=None is refused by the constructor with TypeError (documented type is int): not part of '
    'the property, recorded as outcome only',
    'confirmations of a cached transaction are recomputed from the block count and are not compared',
    'getbalance adds up per-request answers; a falsy answer (None) counted as 0 is accepted',
    'getbalance over a list: how the list is cut into provider requests is free as long as no request holds more '
    'than addresses_per_request addresses (documented maximum), every address is counted exactly once (in one '
    'answered request, or - when it was in no request - with a balance the cache may hold for it: an answer to an '
    'earlier request of this address alone, or the balance of the provider chain after its history / utxo list '
    'was fetched), and the total is the sum of exactly these; which addresses are written to the cache is free, '
    'but a cached balance must be a balance of that address.  Lists with a repeated address and '
    'addresses_per_request <= 0 are not enumerated (0 never terminates on the unchanged tree: the list is not '
    'consumed; the property text says nothing about it)',
    'the cached per-address record (balance, n_utxos, n_txs as returned by getcacheaddressinfo) is inspected after '
    'every query of the addr/bal history families for the addresses Y and W: a falsy balance / None counts as '
    '"unknown", any other figure must be the provider chain\'s or a stored getbalance answer',
    'fake providers answer like the real clients do (getbalance([]) == 0, gettransactions/getutxos honour '
    'after_txid and limit, isspent answers 1/0, getblock answers the transactions number (page-1)*limit .. '
    'page*limit-1 of the block in block order - txids when parse_transactions is false - and an empty list '
    'beyond the end or for limit 0)',
    'incomplete provider copies (no input values / no block time / no block height) are answers of a responding '
    'provider: they must come back unchanged from the call that fetched them; the cache may refuse them ("Only store '
    'complete and confirmed transaction in cache"), what is demanded is that later calls still return what a '
    'responding provider returns, or fail - not the part of the history that happens to be cached',
    'a cached address record with last_block = h is read as "the cache holds the history of this address up to block '
    'h" (that is how gettransactions / getbalance use it): every transaction of the address up to h must be a '
    'complete copy some responding provider returned; the other figures of a record whose last_block is older than '
    'the providers\' block count (or absent) are answers to no query and are not judged in the family of incomplete '
    'copies',
    'a block page served from the cache must be exactly that slice of the block, in block order (the docstring: '
    '"with page=2, limit=4 only transaction 5 to 8 are returned"), every transaction equal to a copy that was '
    'stored; copies stored from different providers may be mixed in one page; asking a provider although the '
    'page is completely cached is not a deviation',
]

NET = 'bitcoin'
NETS = ('bitcoin', 'testnet')
KMAX = 5
METHODS = ['getbalance', 'getutxos', 'gettransaction', 'gettransactions', 'getrawtransaction', 'blockcount',
           'estimatefee', 'getblock', 'sendrawtransaction', 'isspent', 'mempool', 'getinfo']
MAIN = ['ok', 'cerr', 'exc', 'false', 'empty', 'mal']
SPECIAL = ['ok', 'cerr', 'attr', 'none', 'nomethod']
FAILING = ('cerr', 'exc', 'false')
RESPONDING = ('ok', 'empty', 'mal', 'none')
SKIPPED = ('nomethod', 'nourl', 'apikey')
T0 = _real_datetime(2024, 5, 1, 12, 0, 0)
EPOCH0 = 1714564800.0


# ======================================================================================= reference
def ref_order(prios, ranks):
    """Forced provider order: higher priority first, ties by the forced tie-break number, higher first."""
    return sorted(range(len(prios)), key=lambda i: (-prios[i], -ranks[i]))


def ref_failover(order, outc, maxp, maxe):
    """All admissible traces of one provider query.

    order: provider indices in the forced order; outc[i]: outcome class of provider i;
    maxp: number of answers wanted; maxe: error limit.
    Yields dicts {called, errors, opt_errors, results, answer} where answer is the index of the provider
    whose answer must be returned, or None when the call must fail."""
    out = []

    def go(pos, called, errors, opt, results):
        while pos < len(order):
            if len(results) >= maxp:
                break
            p = order[pos]
            pos += 1
            o = outc[p]
            if o in SKIPPED:
                continue
            called = called + [p]
            if o in RESPONDING:
                if o != 'ok':
                    # alternative: a responding provider with an empty/malformed answer is skipped as failed
                    e2 = errors + [p]
                    if len(e2) >= maxe:
                        out.append(_trace(called, e2, opt, results, abort=True))
                    go(pos, called, e2, opt, results)
                results = results + [p]
                continue
            if o == 'attr':
                # skipped; listing/counting it is optional.  The limit is checked after any raising provider.
                if len(errors) + 1 >= maxe:
                    out.append(_trace(called, errors, opt + [p], results, abort=True))
                if len(errors) >= maxe:
                    out.append(_trace(called, errors, opt + [p], results, abort=True))
                    return
                opt = opt + [p]
                continue
            errors = errors + [p]
            if len(errors) >= maxe:
                out.append(_trace(called, errors, opt, results, abort=True))
                if o == 'false':
                    continue        # not demanded that an empty response triggers the limit
                return
        out.append(_trace(called, errors, opt, results, abort=False))

    go(0, [], [], [], [])
    return out


def _trace(called, errors, opt, results, abort):
    return {'called': list(called), 'errors': list(errors), 'opt_errors': list(opt), 'results': list(results),
            'answer': results[0] if results else None, 'abort': abort}


def _ref_selftest():
    # hand-computed cases
    def strict(order, outc, maxp, maxe):
        return [(t['called'], t['errors'], t['results'], t['answer']) for t in ref_failover(order, outc, maxp, maxe)]
    assert ref_order([10, 10, 10], [0.1, 0.9, 0.5]) == [1, 2, 0]
    assert ref_order([1, 3, 2], [0.9, 0.1, 0.5]) == [1, 2, 0]
    assert ref_order([2, 2, 5, 2], [0.2, 0.4, 0.1, 0.3]) == [2, 1, 3, 0]
    assert strict([0, 1, 2], ['ok', 'ok', 'ok'], 1, 4) == [([0], [], [0], 0)]
    assert strict([2, 0, 1], ['ok', 'cerr', 'exc'], 1, 4) == [([2, 0], [2], [0], 0)]
    assert strict([0, 1, 2], ['ok', 'cerr', 'ok'], 2, 4) == [([0, 1, 2], [1], [0, 2], 0)]
    assert strict([0, 1, 2], ['cerr', 'exc', 'cerr'], 1, 4) == [([0, 1, 2], [0, 1, 2], [], None)]
    # limit reached by raising providers: must stop and fail although provider 2 is healthy
    assert strict([0, 1, 2], ['cerr', 'exc', 'ok'], 1, 2) == [([0, 1], [0, 1], [], None)]
    # limit reached by an empty response: both continuing and failing are admissible
    got = strict([0, 1, 2], ['cerr', 'false', 'ok'], 1, 2)
    assert ([0, 1], [0, 1], [], None) in got and ([0, 1, 2], [0, 1], [2], 2) in got and len(got) == 2
    # skipped providers are neither called nor errors
    assert strict([0, 1, 2], ['nourl', 'nomethod', 'ok'], 1, 1) == [([2], [], [2], 2)]
    # error limit with an answer already collected returns that answer
    got = strict([0, 1, 2], ['ok', 'cerr', 'ok'], 2, 1)
    assert got == [([0, 1], [1], [0], 0)]
    # empty answer: pass-through or skip
    got = strict([0, 1], ['empty', 'ok'], 1, 4)
    assert ([0], [], [0], 0) in got and ([0, 1], [0], [1], 1) in got


# ======================================================================================= fixtures
class _Fx:
    pass


_FX = None


def _sig(n):
    r = int.from_bytes(codec.sha256(b'vf-r-%d' % n), 'big') % secp.N
    s = int.from_bytes(codec.sha256(b'vf-s-%d' % n), 'big') % (secp.N // 2)
    return secp.der_encode(r, s) + b'\x01'


class HarnessBug(BaseException):
    """An exception inside the fake providers themselves: must never be taken for a provider failure."""


def fx():
    """Reference chain: five transactions built with the reference serialiser (ids from the reference)."""
    global _FX
    if _FX is not None:
        return _FX
    f = _Fx()
    f.by_net = {}
    for net in NETS:
        c = _Fx()
        pubs = {n: secp.ser(secp.pub(n), True) for n in (11, 12, 13)}
        h = {n: codec.hash160(pubs[n]) for n in pubs}
        c.X = raddr.addr_p2pkh(net, h[11])
        c.Y = raddr.addr_p2pkh(net, h[12])
        c.W = raddr.addr_witness(net, 0, h[13])
        c.Z = raddr.addr_p2pkh(net, codec.hash160(b'\x02' + b'\x77' * 32))
        spkX, spkY, spkW = raddr.spk_p2pkh(h[11]), raddr.spk_p2pkh(h[12]), raddr.spk_witness(0, h[13])
        tag = b'vf' + net.encode()[:2]
        txs = {}

        def mk(name, vin, vout, height, wit=None, version=1, locktime=0, meta=None):
            t = rtx.RTx(version, vin, vout, locktime, wit)
            d = {'name': name, 'rtx': t, 'txid': rtx.txid(t), 'raw': rtx.serialize(t).hex(), 'height': height,
                 'in': meta['in'], 'out': meta['out'], 'coinbase': meta.get('coinbase', False),
                 'segwit': wit is not None}
            txs[name] = d
            return d
        tc = mk('TC', [{'txid': b'\x00' * 32, 'vout': 0xffffffff, 'script': b'\x03\x64\x00\x00' + tag,
                        'seq': 0xffffffff}],
                [{'value': 5000000000, 'script': spkX}], 100,
                meta={'in': [{'addr': '', 'value': 0}], 'out': [c.X], 'coinbase': True})
        ta = mk('TA', [{'txid': bytes.fromhex(tc['txid'])[::-1], 'vout': 0,
                        'script': codec.push(_sig(1)) + codec.push(pubs[11]), 'seq': 0xffffffff}],
                [{'value': 3000000000, 'script': spkY}, {'value': 1500000000, 'script': spkX},
                 {'value': 499990000, 'script': spkW}], 101,
                meta={'in': [{'addr': c.X, 'value': 5000000000}], 'out': [c.Y, c.X, c.W]})
        tb = mk('TB', [{'txid': bytes.fromhex(ta['txid'])[::-1], 'vout': 2, 'script': b'', 'seq': 0xfffffffd}],
                [{'value': 200000000, 'script': spkX}, {'value': 299980000, 'script': spkW}], 102,
                wit=[[_sig(2), pubs[13]]], version=2,
                meta={'in': [{'addr': c.W, 'value': 499990000}], 'out': [c.X, c.W]})
        mk('TD', [{'txid': bytes.fromhex(ta['txid'])[::-1], 'vout': 1,
                   'script': codec.push(_sig(3)) + codec.push(pubs[11]), 'seq': 0xffffffff},
                  {'txid': bytes.fromhex(tb['txid'])[::-1], 'vout': 0,
                   'script': codec.push(_sig(4)) + codec.push(pubs[11]), 'seq': 0xfffffffe}],
           [{'value': 1699900000, 'script': spkY}], 103, locktime=102,
           meta={'in': [{'addr': c.X, 'value': 1500000000}, {'addr': c.X, 'value': 200000000}], 'out': [c.Y]})
        td = txs['TD']
        mk('TU', [{'txid': bytes.fromhex(td['txid'])[::-1], 'vout': 0,
                   'script': codec.push(_sig(5)) + codec.push(pubs[12]), 'seq': 0xffffffff}],
           [{'value': 1699800000, 'script': spkX}], None,
           meta={'in': [{'addr': c.Y, 'value': 1699900000}], 'out': [c.X]})
        # a block with five transactions (height 110) on addresses of its own, so that the histories of X/Y/W/Z
        # stay as they are: coinbase K0 with four outputs, K1..K4 spend one of them each
        pubs.update({n: secp.ser(secp.pub(n), True) for n in (21, 22)})
        hV, hV2 = codec.hash160(pubs[21]), codec.hash160(pubs[22])
        c.V, c.V2 = raddr.addr_p2pkh(net, hV), raddr.addr_p2pkh(net, hV2)
        spkV, spkV2 = raddr.spk_p2pkh(hV), raddr.spk_p2pkh(hV2)
        k0 = mk('K0', [{'txid': b'\x00' * 32, 'vout': 0xffffffff, 'script': b'\x03\x6e\x00\x00' + tag,
                        'seq': 0xffffffff}],
                [{'value': 1250000000, 'script': spkV}] * 4, BLOCK_H,
                meta={'in': [{'addr': '', 'value': 0}], 'out': [c.V] * 4, 'coinbase': True})
        for j in (1, 2, 3, 4):
            vout = [{'value': 1249990000 - 1000 * j, 'script': spkV2}]
            outa = [c.V2]
            if j == 3:
                vout = [{'value': 600000000, 'script': spkV2}, {'value': 649980000, 'script': spkV}]
                outa = [c.V2, c.V]
            mk('K%d' % j, [{'txid': bytes.fromhex(k0['txid'])[::-1], 'vout': j - 1,
                            'script': codec.push(_sig(10 + j)) + codec.push(pubs[21]),
                            'seq': 0xffffffff - (j % 2)}],
               vout, BLOCK_H, locktime=0 if j != 4 else 105,
               meta={'in': [{'addr': c.V, 'value': 1250000000}], 'out': outa})
        c.txs = txs
        c.by_id = {d['txid']: d for d in txs.values()}
        c.chain = ['TC', 'TA', 'TB', 'TD']          # confirmed, in block order
        c.addrs = [c.X, c.Y, c.W, c.Z]
        f.by_net[net] = c
    _FX = f
    return f


def addr_history(c, address, with_unconfirmed=False):
    """Names of the chain transactions that involve the address, oldest first."""
    names = []
    for n in c.chain + (['TU'] if with_unconfirmed else []):
        d = c.txs[n]
        if address in d['out'] or any(i['addr'] == address for i in d['in']):
            names.append(n)
    return names


def ref_history_after(c, address, after_txid):
    res = []
    for n in addr_history(c, address):
        res.append(n)
        if c.txs[n]['txid'] == after_txid:
            res = []
    return res


def addr_utxos(c, address):
    """(txid, n, value, height) of the unspent confirmed outputs of the address in the reference chain."""
    spent = set()
    for n in c.chain:
        for i in c.txs[n]['rtx'].vin:
            spent.add((i['txid'][::-1].hex(), i['vout']))
    res = []
    for n in c.chain:
        d = c.txs[n]
        for k, a in enumerate(d['out']):
            if a == address and (d['txid'], k) not in spent:
                res.append((d['txid'], k, d['rtx'].vout[k]['value'], d['height']))
    return res


def chain_balance(c, address):
    return sum(u[2] for u in addr_utxos(c, address))


BLOCK_H = 110
BLOCKS = {100: ['TC'], 101: ['TA'], 102: ['TB'], 103: ['TD'], BLOCK_H: ['K0', 'K1', 'K2', 'K3', 'K4']}


def block_hash(height):
    return codec.sha256(b'vfblock%d' % height).hex()


def block_height(blockid):
    """Height of the fixture block named by height or by hash."""
    if isinstance(blockid, int) and not isinstance(blockid, bool):
        return blockid
    for h in BLOCKS:
        if block_hash(h) == blockid:
            return h
    raise KeyError(blockid)


def block_page(height, page, limit):
    """Reference: names of the transactions number (page-1)*limit .. page*limit-1 of the block, in block order."""
    return BLOCKS[height][(page - 1) * limit:page * limit]


def block_request(args):
    """(height, parse_transactions, page, effective limit) of a Service.getblock call, defaults as documented:
    page 1, 25 transactions when they are parsed, all transaction ids otherwise."""
    parse = args[1] if len(args) > 1 else True
    page = args[2] if len(args) > 2 else 1
    limit = args[3] if len(args) > 3 else None
    if limit is None:
        limit = 25 if parse else 99999
    return block_height(args[0]), parse, page, limit


def block_dict(c, blockid, pidx, parse_transactions, page, limit, net):
    """What a provider answers for getblock: header fields of a made-up block holding chain transactions, and
    the requested page of its transactions (empty beyond the end)."""
    height = block_height(blockid)
    names = BLOCKS[height]
    d = c.txs[names[0]]
    page_names = block_page(height, page, limit)
    txs = [make_tx(net, n, pidx) for n in page_names] if parse_transactions else \
        [c.txs[n]['txid'] for n in page_names]
    bh, pbh = block_hash(height), block_hash(height - 1)
    if getattr(E, 'foreign', False):
        # the block another network has at this height: other hash, other time
        bh, pbh = codec.sha256(b'vfforeign%d' % height).hex(), codec.sha256(b'vfforeign%d' % (height - 1)).hex()
    return {'bits': 0x1d00ffff, 'depth': 5, 'block_hash': bh,
            'height': height, 'merkle_root': bytes.fromhex(d['txid'])[::-1].hex(), 'nonce': 7000 + pidx,
            'prev_block': pbh, 'time': 1600000000 + height + (5000 if getattr(E, 'foreign', False) else 0),
            'tx_count': len(names), 'txs': txs, 'version': 1, 'page': page,
            'pages': max(1, -(-len(names) // limit)) if limit else 1, 'limit': limit}


# Completeness of a provider's copy of a confirmed transaction.  Real provider clients differ in what they report:
# some do not know the value of the inputs (a raw transaction does not hold it), some not the block time or the
# block height.  The library's cache only accepts complete transactions (docstring of Cache.store_transaction:
# "Only store complete and confirmed transaction in cache"), so these answers of a RESPONDING provider leave the
# cache partially filled although the query succeeded.
FORMS = ('full', 'noval', 'nodate', 'noheight')


def tx_form(pidx, name):
    """Form in which provider pidx reports transaction `name` (scripted per history in E.forms)."""
    f = E.forms.get(name, 'full')
    if not isinstance(f, str):
        f = f[pidx] if pidx < len(f) else 'full'
    if f not in FORMS:
        raise HarnessBug('unknown transaction form %r' % (f,))
    d = fx().by_net[NET].txs[name]
    if d['coinbase'] or d['height'] is None:
        return 'full'       # (a coinbase has no input value to report; an unconfirmed transaction is never cached)
    return f


def storable(pidx, name):
    """May the cache hold provider pidx's copy of the transaction?  Only complete, confirmed transactions."""
    return tx_form(pidx, name) == 'full' and fx().by_net[NET].txs[name]['height'] is not None


def make_tx(net, name, pidx, spent_view=None):
    """A library Transaction object as a provider client would assemble it (cf. MempoolClient._parse_transaction);
    the provider index is carried in the seconds of the block date, which the cache stores and returns.
    The copy is as complete as tx_form(pidx, name) says."""
    from bitcoinlib.transactions import Transaction
    c = fx().by_net[net]
    d = c.txs[name]
    r = d['rtx']
    conf = d['height'] is not None
    form = tx_form(pidx, name)
    t = Transaction(locktime=r.locktime, version=r.version, network=net,
                    block_height=None if form == 'noheight' else d['height'],
                    fee=None, txid=d['txid'], date=T0.replace(second=pidx, tzinfo=timezone.utc) -
                    timedelta(days=30) if conf and form != 'nodate' else None,
                    confirmations=(210 - d['height']) if conf else 0, status='confirmed' if conf else 'unconfirmed',
                    coinbase=d['coinbase'], witness_type='segwit' if d['segwit'] else 'legacy')
    for k, i in enumerate(r.vin):
        if d['coinbase']:
            t.add_input(prev_txid=i['txid'][::-1], output_n=i['vout'], unlocking_script=i['script'], value=0,
                        sequence=i['seq'], strict=False, witness_type='legacy')
        else:
            prevd = c.by_id[i['txid'][::-1].hex()]
            t.add_input(prev_txid=i['txid'][::-1], output_n=i['vout'], unlocking_script=i['script'],
                        value=0 if form == 'noval' else d['in'][k]['value'], address=d['in'][k]['addr'],
                        locking_script=prevd['rtx'].vout[i['vout']]['script'], sequence=i['seq'],
                        witnesses=None if r.wit is None else r.wit[k], strict=False)
    for k, o in enumerate(r.vout):
        t.add_output(value=o['value'], address=d['out'][k], spent=None, lock_script=o['script'], strict=False)
    t.update_totals()
    return t


def tx_summary(t):
    """Attribute read-out of a library Transaction (no library computation except raw_hex, which is
    compared with the reference serialisation)."""
    try:
        # (witness data is covered by `raw`; Input.witnesses of a legacy input is library-internal)
        ins = [[i.prev_txid.hex(), i.output_n_int, i.value, bytes(i.unlocking_script).hex(), i.sequence,
                i.address] for i in t.inputs]
        outs = [[o.value, bytes(o.lock_script).hex(), o.address, o.output_n] for o in t.outputs]
        date = t.date.replace(tzinfo=None).isoformat() if t.date else None
        try:
            raw = t.raw_hex()
        except Exception as e:
            raw = 'raises ' + type(e).__name__
        return {'txid': t.txid, 'version': t.version_int, 'locktime': t.locktime, 'ins': ins, 'outs': outs,
                'height': t.block_height, 'date': date, 'fee': t.fee, 'raw': raw, 'coinbase': bool(t.coinbase),
                'wt': t.witness_type}
    except Exception as e:
        return {'unreadable': repr(e)[:200]}


def ref_tx_summary(net, name, pidx, form=None):
    """The same read-out computed from the reference chain only, as complete as provider pidx reports it
    (form: the scripted form of that provider's copy unless given)."""
    c = fx().by_net[net]
    d = c.txs[name]
    r = d['rtx']
    if form is None:
        form = tx_form(pidx, name)
    ins = []
    for k, i in enumerate(r.vin):
        ins.append([i['txid'][::-1].hex(), i['vout'], 0 if form == 'noval' else d['in'][k]['value'],
                    i['script'].hex(), i['seq'], d['in'][k]['addr']])
    outs = [[o['value'], o['script'].hex(), d['out'][k], k] for k, o in enumerate(r.vout)]
    conf = d['height'] is not None
    tin = sum(i['value'] for i in d['in'])
    fee = None if d['coinbase'] else tin - sum(o['value'] for o in r.vout)
    return {'txid': d['txid'], 'version': r.version, 'locktime': r.locktime, 'ins': ins, 'outs': outs,
            'height': None if form == 'noheight' else d['height'],
            'date': (T0.replace(second=pidx) - timedelta(days=30)).isoformat() if conf and form != 'nodate'
            else None,
            'fee': fee, 'raw': d['raw'], 'coinbase': d['coinbase'], 'wt': 'segwit' if d['segwit'] else 'legacy'}


TX_CMP = ('txid', 'version', 'locktime', 'ins', 'outs', 'height', 'date', 'raw', 'coinbase')


def tx_diff(got, exp, keys=TX_CMP):
    return [k for k in keys if got.get(k) != exp.get(k)]


def _tag_hex(raw, pidx):
    """The same hex string in a provider-specific letter case (first pidx letters upper-cased)."""
    out = []
    n = 0
    for ch in raw:
        if ch in 'abcdef' and n < pidx:
            out.append(ch.upper())
            n += 1
        else:
            out.append(ch)
    return ''.join(out)


# ======================================================================================= fake providers
class _Env:
    script = {}        # (pidx, method) -> outcome class or list of outcome classes per call number
    static = {}        # (pidx, method) -> 'nomethod'
    counts = {}
    log = []           # [pidx, method, outcome, args]
    net = NET
    clock = 0.0        # seconds after T0
    ranks = [0.5]
    rpos = 0
    perm = None
    shuffled = None
    installed = False
    ctor_args = None
    pe = []            # one record per Service._provider_execute
    forms = {}         # transaction name -> completeness form of the providers' copies (str, or list per provider)
    vals = {}          # method -> value class of the providers' ok answers (str, or list per provider)


E = _Env


def reset_env(net=NET):
    E.script = {}
    E.static = {}
    E.counts = {}
    E.log = []
    E.net = net
    E.clock = 0.0
    E.ranks = [0.5]
    E.rpos = 0
    E.perm = None
    E.shuffled = None
    E.pe = []
    E.forms = {}
    E.vals = {}


class _FakeRandom:
    """Stands in for the `random` module inside bitcoinlib.services.services."""
    @staticmethod
    def random():
        v = E.ranks[E.rpos % len(E.ranks)]
        E.rpos += 1
        return v

    @staticmethod
    def shuffle(lst):
        if E.perm is not None:
            lst[:] = [lst[j] for j in E.perm]
        E.shuffled = list(lst)


class _FakeTime:
    @staticmethod
    def time():
        return EPOCH0 + E.clock


class _FakeDatetime(_real_datetime):
    @classmethod
    def now(cls, tz=None):
        return T0 + timedelta(seconds=E.clock)


# Value classes of a responding provider's fee estimate.  The service does not hand a fee estimate through as it
# is: the network definition carries a lowest and a highest fee per kB and the estimate is limited to that range
# (and a falsy estimate is replaced by the network's default fee) BEFORE it is returned and stored.  So where the
# provider's figure lies relative to these bounds is a dimension of the `ok` outcome of its own: only outside the
# range do "the provider's answer", "the answer of the call" and "what the cache holds" differ.
# (fee_min, fee_max, fee_default) in satoshi per kB, copied from the network definitions (bitcoinlib/data/networks.json)
FEE_BOUNDS = {'bitcoin': (1000, 1000000, None), 'testnet': (1000, 2000000, 10000)}
FEE_CLASSES = ('in', 'one', 'below', 'min-1', 'min', 'min+1', 'max-1', 'max', 'max+1', 'far', 'spread')


def fee_value(cls, pidx, blocks, net):
    """The fee estimate provider pidx answers for `blocks` in value class cls.  The classes in / one / below / far
    carry the provider index and the confirmation target, the boundary classes are the exact figure; `spread` is a
    congested network: far above the highest fee for the next block, in range up to 5 blocks, below the lowest
    fee for more."""
    lo, hi, _ = FEE_BOUNDS[net]
    if cls == 'spread':
        cls = 'far' if blocks <= 1 else 'in' if blocks <= 5 else 'below'
    if cls == 'in':
        return 20000 + 1000 * pidx + blocks
    if cls == 'one':
        return 1 + pidx
    if cls == 'below':
        return lo // 2 + 30 * pidx + blocks % 30
    if cls == 'far':
        return 250 * hi + 1000 * pidx + blocks
    if cls in ('min-1', 'min', 'min+1'):
        return lo + {'min-1': -1, 'min': 0, 'min+1': 1}[cls]
    if cls in ('max-1', 'max', 'max+1'):
        return hi + {'max-1': -1, 'max': 0, 'max+1': 1}[cls]
    raise HarnessBug('unknown fee value class %r' % (cls,))


def fee_limited(value, net):
    """Reference: the estimate limited to the fee range of the network definition."""
    lo, hi, _ = FEE_BOUNDS[net]
    return min(max(value, lo), hi)


def val_class(method, pidx):
    """Value class of provider pidx's ok answers for the method (scripted per history / case in E.vals)."""
    v = E.vals.get(method, 'in')
    if not isinstance(v, str):
        v = v[pidx] if pidx < len(v) else 'in'
    return v


def vals_tag(vals):
    return ','.join('%s=%s' % (k, v if isinstance(v, str) else '/'.join(v)) for k, v in sorted(vals.items()))


def ok_value(method, pidx, args, net):
    c = fx().by_net[net]
    if method == 'getbalance':
        return sum(chain_balance(c, a) + 7 + pidx for a in args[0])
    if method == 'getutxos':
        address, after_txid, limit = args
        res = []
        for txid, n, value, height in addr_utxos(c, address):
            res.append({'address': address, 'txid': txid, 'confirmations': 210 - height, 'output_n': n,
                        'input_n': 0, 'block_height': height, 'fee': None, 'size': 200 + pidx, 'value': value,
                        'script': '', 'date': T0 - timedelta(days=30)})
            if txid == after_txid:
                res = []
        return res[:limit]
    if method == 'gettransaction':
        return make_tx(net, c.by_id[args[0]]['name'], pidx)
    if method == 'gettransactions':
        address, after_txid, limit = args
        return [make_tx(net, n, pidx) for n in ref_history_after(c, address, after_txid)[:limit]]
    if method == 'getrawtransaction':
        return _tag_hex(c.by_id[args[0]]['raw'], pidx)
    if method == 'blockcount':
        return 200 + pidx
    if method == 'estimatefee':
        return fee_value(val_class(method, pidx), pidx, args[0], net)
    if method == 'getblock':
        blockid, parse_transactions, page, limit = args
        return block_dict(c, blockid, pidx, parse_transactions, page, limit, net)
    if method == 'sendrawtransaction':
        return {'txid': codec.dsha256(bytes.fromhex(args[0]))[::-1].hex(), 'response_dict': {'by': pidx}}
    if method == 'isspent':
        return (pidx + 1) % 2
    if method == 'mempool':
        return [c.txs['TU']['txid'], '%064x' % (pidx + 1)]
    if method == 'getinfo':
        return {'blockcount': 200 + pidx, 'chain': 'main', 'difficulty': 1000 + pidx, 'hashrate': 5000,
                'mempool_size': 10 + pidx}
    raise AssertionError(method)


EMPTY = {'getbalance': 0, 'getutxos': [], 'gettransaction': None, 'gettransactions': [], 'getrawtransaction': '',
         'blockcount': 0, 'estimatefee': 0, 'getblock': {}, 'sendrawtransaction': {}, 'isspent': 0,
         'mempool': [], 'getinfo': {}}


def mal_value(method, pidx, args, net):
    c = fx().by_net[net]
    if method == 'gettransaction':      # a well-formed transaction, but not the one that was asked for
        other = 'TB' if c.by_id[args[0]]['name'] != 'TB' else 'TA'
        return make_tx(net, other, pidx)
    if method == 'getrawtransaction':
        other = 'TB' if c.by_id[args[0]]['name'] != 'TB' else 'TA'
        return _tag_hex(c.txs[other]['raw'], pidx)
    return {'getbalance': '12345', 'getutxos': ['not-a-utxo'], 'gettransactions': {'error': 'x'},
            'blockcount': '123', 'estimatefee': '20000', 'getblock': {'height': 1}, 'sendrawtransaction': 'ok',
            'isspent': 'yes', 'mempool': 'deadbeef', 'getinfo': ['x']}[method]


class _FakeClient(object):
    pidx = None

    def __init__(self, network, base_url, denominator, api_key='', provider_coin_id='', network_overrides=None,
                 timeout=0, latest_block=None, strict=True, wallet_name=''):
        self.network = network
        self.base_url = base_url
        E.ctor_args = [getattr(network, 'name', network), base_url, latest_block]

    def __getattr__(self, name):
        if name not in METHODS:
            raise AttributeError(name)
        pidx = self.pidx
        if E.static.get((pidx, name)) == 'nomethod':
            raise AttributeError(name)

        def call(*args):
            from bitcoinlib.services.baseclient import ClientError
            seq = E.script.get((pidx, name), 'ok')
            E.counts[(pidx, name)] = E.counts.get((pidx, name), 0) + 1
            # a list is indexed by the number of the provider query (Service._provider_execute round) for this
            # method inside the current Service call
            n = max(0, len([r for r in E.pe if r['method'] == name]) - 1)
            o = seq if isinstance(seq, str) else seq[min(n, len(seq) - 1)]
            E.log.append([pidx, name, o, _jargs(args)])
            net = getattr(self.network, 'name', self.network)
            if o == 'ok':
                try:
                    return ok_value(name, pidx, args, net)
                except Exception as e:
                    raise HarnessBug('ok_value(%s) failed: %r' % (name, e))
            if o == 'cerr':
                raise ClientError('vf: provider %d refuses %s' % (pidx, name))
            if o == 'exc':
                import requests
                raise requests.exceptions.ReadTimeout('vf: provider %d timed out' % pidx)
            if o == 'attr':
                raise AttributeError("vf: 'NoneType' object has no attribute 'get'")
            if o == 'false':
                return False
            if o == 'none':
                return None
            if o == 'empty':
                v = EMPTY[name]
                return type(v)() if isinstance(v, (list, dict)) else v
            if o == 'mal':
                try:
                    return mal_value(name, pidx, args, net)
                except Exception as e:
                    raise HarnessBug('mal_value(%s) failed: %r' % (name, e))
            raise HarnessBug('unscripted outcome class %r' % (o,))
        return call


def _jargs(args):
    return [a if isinstance(a, (int, str, bool, type(None))) else (a if isinstance(a, list) else repr(a)[:40])
            for a in args]


def set_name(k, prios):
    return 'vfk%d' % k + ''.join(str(p) for p in prios)


def prio_vectors(k):
    """All weak orderings of k providers as canonical priority vectors (values 1..k, dense)."""
    res = []
    for v in itertools.product(range(1, k + 1), repeat=k):
        if sorted(set(v)) == list(range(1, len(set(v)) + 1)):
            res.append(list(v))
    return res


def provider_sets():
    """name -> (k, priorities).  One definition set per k and weak ordering of priorities."""
    sets = {}
    for k in range(1, KMAX + 1):
        for v in (prio_vectors(k) if k <= 4 else [[1] * k]):
            sets[set_name(k, v)] = (k, v)
    return sets


def _provider_defs():
    defs = {}
    for net in NETS:
        for name, (k, prios) in provider_sets().items():
            if net != NET and len(set(prios)) > 1:
                continue
            for i in range(k):
                defs['%s.%s.p%d' % (name, net, i)] = {
                    'provider': name, 'network': net, 'client_class': 'P%d' % i, 'provider_coin_id': '',
                    'url': 'vf://%s/%d' % (name, i), 'api_key': '', 'priority': prios[i], 'denominator': 1,
                    'network_overrides': None, 'timeout': 0}
    # variants of the all-tied 3-provider set in which provider <bad> is unusable (no url / api key missing)
    for net in NETS:
        for variant, field, val in (('vfnourl', 'url', ''), ('vfapikey', 'api_key', 'api-key-needed')):
            for bad in range(3):
                for i in range(3):
                    d = {'provider': '%s%d' % (variant, bad), 'network': net, 'client_class': 'P%d' % i,
                         'provider_coin_id': '', 'url': 'vf://%s%d/%d' % (variant, bad, i), 'api_key': '',
                         'priority': 1, 'denominator': 1, 'network_overrides': None, 'timeout': 0}
                    if i == bad:
                        d[field] = val
                    defs['%s%d.%s.p%d' % (variant, bad, net, i)] = d
    return defs


SKIPSETS = ['%s%d' % (v, b) for v in ('vfnourl', 'vfapikey') for b in range(3)]


def install():
    """Attach the fake provider module to bitcoinlib.services, write providers.json into the scratch
    BCL_DATA_DIR, take over random / time / datetime inside bitcoinlib.services.services."""
    if E.installed:
        return
    import bitcoinlib.services as services
    from bitcoinlib.services import services as S
    logging.disable(logging.CRITICAL)
    mod = types.ModuleType('bitcoinlib.services.vffake')
    for i in range(KMAX):
        setattr(mod, 'P%d' % i, type('P%d' % i, (_FakeClient,), {'pidx': i}))
    services.vffake = mod
    for name in list(provider_sets()) + SKIPSETS:
        setattr(services, name, mod)
    path = os.path.join(str(S.BCL_DATA_DIR), 'providers.json')
    if os.path.realpath(str(S.BCL_DATA_DIR)) != os.path.realpath(env.scratch_dir()):
        raise RuntimeError('bitcoinlib does not use the scratch data directory: %s' % S.BCL_DATA_DIR)
    want = json.dumps(_provider_defs(), sort_keys=True)
    try:
        with open(path) as f:
            have = f.read()
    except OSError:
        have = None
    if have != want:
        tmp = path + '.%d.tmp' % os.getpid()
        with open(tmp, 'w') as f:
            f.write(want)
        os.replace(tmp, path)
    S.random = _FakeRandom
    S.time = _FakeTime
    S.datetime = _FakeDatetime
    # observation seam: snapshot errors/results at the end of every provider query (several queries can
    # happen inside one Service call and each resets the bookkeeping)
    orig = S.Service._provider_execute

    def recording_provider_execute(self, method, *arguments):
        rec = {'method': method, 'log0': len(E.log)}
        E.pe.append(rec)
        try:
            r = orig(self, method, *arguments)
            rec['ret'] = r
            return r
        except BaseException as e:
            rec['exc'] = type(e).__name__
            raise
        finally:
            rec['errors'] = [_pidx(x) for x in self.errors]
            rec['results'] = [_pidx(x) for x in self.results]
            rec['called'] = [l[0] for l in E.log[rec['log0']:] if l[1] == method]
            rec['log1'] = len(E.log)
    S.Service._provider_execute = recording_provider_execute
    E.installed = True


def worker_init():
    install()


# ======================================================================================= running one call
def new_service(setname, net, cfg, cache):
    """cache: 'off' (SERVICE_CACHING_ENABLED false), or a sqlite path."""
    from bitcoinlib.services import services as S
    S.SERVICE_CACHING_ENABLED = cache != 'off'
    kw = {'network': net, 'providers': [setname], 'cache_uri': '' if cache == 'off' else cache}
    for key in ('min_providers', 'max_providers', 'max_errors', 'ignore_priority'):
        if key in cfg:
            kw[key] = cfg[key]
    return S.Service(**kw)


def close_service(srv):
    try:
        if srv is not None and srv.cache is not None and srv.cache.session is not None:
            eng = srv.cache.session.get_bind()
            srv.cache.session.close()
            eng.dispose()
    except Exception:
        pass


def call_args(method, net, key='A'):
    """Arguments of the query under test; key 'A' / 'B' are two different cache keys."""
    c = fx().by_net[net]
    tx = c.txs['TA' if key == 'A' else 'TB']
    address = c.Y if key == 'A' else c.W
    return {'getbalance': ([address],), 'getutxos': (address,), 'gettransaction': (tx['txid'],),
            'gettransactions': (address,), 'getrawtransaction': (tx['txid'],), 'blockcount': (),
            'estimatefee': (3 if key == 'A' else 10,), 'getblock': (101 if key == 'A' else 102,),
            'sendrawtransaction': (tx['raw'],), 'isspent': (tx['txid'], 0), 'mempool': ('',),
            'getinfo': ()}[method]


def provider_args(method, args):
    """What the provider client is called with for a cold/disabled cache."""
    if method == 'getutxos':
        return (args[0], '', 20)
    if method == 'gettransactions':
        return (args[0], '', 20)
    if method == 'getblock':
        return (args[0], True, 1, 25)
    return args


def run_call(fn, method):
    """Execute one Service call (fn) and collect the observation: return value / exception, and the
    bookkeeping snapshot of the last provider query for `method` made inside it."""
    from bitcoinlib.services.services import ServiceError
    E.log = []
    E.pe = []
    E.rpos = 0
    obs = {}
    try:
        obs['ret'] = fn()
    except ServiceError as e:
        obs['exc'] = 'ServiceError'
        obs['msg'] = str(e)[:120]
    except Exception as e:
        obs['exc'] = type(e).__name__
        obs['msg'] = repr(e)[:120]
    obs['log'] = E.log
    recs = [r for r in E.pe if r['method'] == method]
    obs['queries'] = len(recs)
    obs['recs'] = recs
    last = recs[-1] if recs else {}
    obs['called'] = last.get('called', [])
    obs['errors'] = last.get('errors', [])
    obs['results'] = last.get('results', [])
    return obs


def call_method(srv, method, args):
    return lambda: getattr(srv, method)(*[list(a) if isinstance(a, list) else a for a in args])


def _pidx(provider_key):
    return int(provider_key.rsplit('.p', 1)[1])


# ---------------------------------------------------------------------------------------- judging values
FALSE_IS_FAILURE = ('gettransaction', 'getrawtransaction', 'sendrawtransaction', 'getblock', 'mempool',
                    'getinfo', 'blockcount', 'getutxos', 'gettransactions')


def is_failure(method, obs):
    if 'exc' in obs:
        return True
    return obs['ret'] is False and method in FALSE_IS_FAILURE


def _same_plain(a, b):
    return type(a) is type(b) and a == b


def block_summary(b):
    try:
        return {'hash': bytes(b.block_hash).hex(), 'height': b.height, 'merkle_root': bytes(b.merkle_root).hex(),
                'prev_block': bytes(b.prev_block).hex(), 'time': b.time, 'bits': b.bits_int,
                'nonce': b.nonce_int, 'version': b.version_int, 'tx_count': b.tx_count}
    except Exception as e:
        return {'unreadable': repr(e)[:100]}


def ref_block_summary(bd):
    return {'hash': bd['block_hash'], 'height': bd['height'], 'merkle_root': bd['merkle_root'],
            'prev_block': bd['prev_block'], 'time': bd['time'], 'bits': bd['bits'], 'nonce': bd['nonce'],
            'version': bd['version'], 'tx_count': bd['tx_count']}


def value_matches(method, net, pidx, cls, pargs, val, req_args):
    """Does the returned value equal what provider pidx answered (outcome class cls) for this query?
    Returns None if it does, else a short class name of the difference."""
    c = fx().by_net[net]
    if cls == 'ok':
        if method == 'gettransaction':
            name = c.by_id[pargs[0]]['name']
            got = tx_summary(val) if hasattr(val, 'inputs') else None
            if got is None:
                return 'not_a_transaction'
            d = tx_diff(got, ref_tx_summary(net, name, pidx))
            return None if not d else 'tx_fields_differ:' + ','.join(d)
        if method == 'gettransactions':
            if not isinstance(val, list):
                return 'not_a_list'
            names = ref_history_after(c, pargs[0], pargs[1])[:pargs[2]]
            if len(val) != len(names):
                return 'list_length_differs'
            for t, name in zip(val, names):
                got = tx_summary(t) if hasattr(t, 'inputs') else {}
                d = tx_diff(got, ref_tx_summary(net, name, pidx))
                if d:
                    return 'tx_fields_differ:' + ','.join(d)
            return None
        exp = ok_value(method, pidx, pargs, net)
        if method == 'getblock':
            if not hasattr(val, 'block_hash'):
                return 'not_a_block'
            got = block_summary(val)
            if got != ref_block_summary(exp):
                return 'block_fields_differ'
            txs = getattr(val, 'transactions', None) or []
            names = block_page(block_height(pargs[0]), pargs[2], pargs[3])
            if pargs[1]:
                if len(txs) != len(names):
                    return 'block_page_length_differs'
                for t, name in zip(txs, names):
                    if not hasattr(t, 'inputs') or tx_diff(tx_summary(t), ref_tx_summary(net, name, pidx)):
                        return 'block_transactions_differ'
            elif list(txs) != [c.txs[x]['txid'] for x in names]:
                return 'block_txids_differ'
            return None
        if method == 'isspent':
            return None if val is bool(exp) else 'differs'
        if method == 'estimatefee':
            # the provider's figure itself, or that figure limited to the fee range of the network definition
            # (which of the two is fee policy); anything else is a figure no provider returned
            if _same_plain(val, exp) or _same_plain(val, fee_limited(exp, net)):
                return None
            lo, hi, _ = FEE_BOUNDS[net]
            if _same_plain(val, lo) or _same_plain(val, hi):
                return 'fee_limited_to_the_wrong_bound'
            return 'fee_neither_provider_answer_nor_that_answer_limited_to_the_network_fee_range'
        return None if _same_plain(val, exp) else 'differs'
    if cls == 'empty':
        exp = EMPTY[method]
        if method == 'isspent':
            return None if val is False else 'differs'
        if method == 'estimatefee':
            # falsy estimate: fee policy (network default, clamped) is not judged
            from bitcoinlib.networks import Network
            nw = Network(net)
            ok = [0]
            if nw.fee_default:
                ok.append(min(max(nw.fee_default, nw.fee_min), nw.fee_max))
            return None if val in ok and not isinstance(val, bool) else 'differs'
        return None if _same_plain(val, exp) else 'differs'
    if cls == 'none':
        if method == 'getbalance':      # a falsy per-request answer adds nothing to the total
            return None if (val is None or (val == 0 and not isinstance(val, bool))) else 'differs'
        if method == 'isspent':
            return None if val is False else 'differs'
        if method == 'estimatefee':
            return value_matches(method, net, pidx, 'empty', pargs, val, req_args)
        return None if val is None else 'differs'
    if cls == 'mal':
        if method == 'gettransaction':
            other = 'TB' if c.by_id[pargs[0]]['name'] != 'TB' else 'TA'
            got = tx_summary(val) if hasattr(val, 'inputs') else None
            if got is None:
                return 'not_a_transaction'
            d = tx_diff(got, ref_tx_summary(net, other, pidx))
            if not d:
                return None
            if d == ['txid'] and got['txid'] == req_args[0]:
                return 'other_tx_relabelled_with_requested_txid'
            return 'tx_fields_differ:' + ','.join(d)
        if method == 'isspent':
            return None if val is True else 'differs'
        return None if _same_plain(val, mal_value(method, pidx, pargs, net)) else 'differs'
    raise AssertionError(cls)


def fabricated_class(method, net, outc, pargs, obs, k):
    """Name the kind of value that was returned although the call had to fail."""
    val = obs['ret']
    if method == 'getbalance' and val == 0 and not isinstance(val, bool):
        return 'returns_0'
    if method == 'isspent' and val is False:
        return 'returns_False_meaning_unspent'
    if method == 'estimatefee':
        from bitcoinlib.networks import Network
        nw = Network(net)
        if nw.fee_default and val == min(max(nw.fee_default, nw.fee_min), nw.fee_max):
            return 'returns_network_default_fee'
    for q in range(k):
        try:
            if outc[q] in RESPONDING and value_matches(method, net, q, outc[q], pargs, val, pargs) is None:
                return 'answer_of_provider_not_reached'
        except Exception:
            pass
    for q in range(k):
        try:
            if value_matches(method, net, q, 'ok', pargs, val, pargs) is None:
                return 'ok_value_of_failed_provider'
        except Exception:
            pass
    if method == 'blockcount' and val is None:
        return 'returns_None'
    return 'returns_other_%s' % type(val).__name__


def judge(method, net, k, order, outc, maxp, maxe, args, pargs, obs):
    """Compare one observation with the admissible traces.  Returns (label, deviation-class or None, detail)."""
    traces = ref_failover(order, outc, maxp, maxe)
    exact = []
    for t in traces:
        if obs['called'] != t['called'] or obs['results'] != t['results']:
            continue
        oe = obs['errors']
        if oe != t['errors']:
            # optional entries (AttributeError providers) may be listed in call order
            allowed = set(t['errors']) | set(t['opt_errors'])
            if not (set(t['errors']) <= set(oe) <= allowed and oe == [p for p in t['called'] if p in oe]):
                continue
        exact.append(t)
    if not exact:
        return 'dev', _bookkeeping_class(traces, obs), {'admissible': traces[:4]}
    failed = is_failure(method, obs)
    why = []
    for t in exact:
        if t['answer'] is None:
            if failed:
                return 'fail:' + (obs.get('exc') or 'False'), None, None
            cause = 'error_limit' if t['abort'] else 'no_answer'
            why.append('%s|%s' % (cause, fabricated_class(method, net, outc, pargs, obs, k)))
            continue
        p = t['answer']
        cls = outc[p]
        if failed:
            if cls != 'ok':
                return 'fail_on_%s:%s' % (cls, obs.get('exc') or 'False'), None, None
            why.append('provider_answered|call_failed_%s' % (obs.get('exc') or 'False'))
            continue
        try:
            m = value_matches(method, net, p, cls, pargs, obs['ret'], args)
        except Exception as e:
            m = 'uncomparable_%s' % type(e).__name__
        if m is None:
            return 'answer:' + cls, None, None
        other = None
        for q in range(k):
            if q != p and outc[q] in RESPONDING:
                try:
                    if value_matches(method, net, q, outc[q], pargs, obs['ret'], args) is None:
                        other = q
                        break
                except Exception:
                    pass
        if other is not None:
            why.append('answered_%s|value_of_another_provider' % cls)
        else:
            why.append('answered_%s|%s' % (cls, m))
    return 'dev', why[0], {'admissible': exact[:4]}


def _bookkeeping_class(traces, obs):
    called = obs['called']
    for t in traces:
        if called == t['called']:
            if obs['results'] != t['results']:
                return 'bookkeeping|results_differ'
            oe, te = obs['errors'], t['errors']
            if set(oe) < set(te):
                return 'bookkeeping|errors_missing_failed_provider'
            if set(oe) > set(te):
                return 'bookkeeping|errors_lists_provider_that_did_not_fail'
            return 'bookkeeping|errors_differ'
    for t in traces:
        tc = t['called']
        if len(called) > len(tc) and called[:len(tc)] == tc:
            if t['abort']:
                return 'bookkeeping|provider_asked_after_error_limit'
            return 'bookkeeping|provider_asked_after_enough_answers'
        if len(called) < len(tc) and tc[:len(called)] == called:
            return 'bookkeeping|stopped_before_all_providers_tried'
    for t in traces:
        if sorted(called) == sorted(t['called']):
            return 'bookkeeping|provider_order_differs'
    return 'bookkeeping|providers_called_differ'


# ======================================================================================= assignments
def assignments(k, alphabet, max_faults=None, only_faults=None):
    """All outcome assignments to k providers, fewest deviations from 'ok' first."""
    res = []
    for nf in range(0, k + 1):
        if max_faults is not None and nf > max_faults and nf != only_faults:
            continue
        for pos in itertools.combinations(range(k), nf):
            for vals in itertools.product([a for a in alphabet if a != 'ok'], repeat=nf):
                a = ['ok'] * k
                for p, v in zip(pos, vals):
                    a[p] = v
                res.append(a)
    return res


def _abbr(outc):
    return ''.join({'ok': 'o', 'cerr': 'c', 'exc': 'x', 'false': 'f', 'empty': 'e', 'mal': 'm', 'attr': 'a',
                    'none': 'n', 'nomethod': 'M', 'nourl': 'U', 'apikey': 'K'}[o] for o in outc)


class _Devs:
    def __init__(self):
        self.by = {}

    def add(self, sig, detail):
        if sig in self.by:
            self.by[sig]['detail']['more_in_this_case'] += 1
        else:
            detail = dict(detail)
            detail['more_in_this_case'] = 0
            self.by[sig] = {'sig': sig, 'detail': detail}

    def list(self):
        return list(self.by.values())


def _obs_json(obs):
    o = {k: v for k, v in obs.items() if k not in ('ret', 'log', 'recs')}
    if 'ret' in obs:
        r = obs['ret']
        o['ret'] = r if isinstance(r, (int, str, bool, type(None))) else repr(r)[:160]
    return o


# ======================================================================================= sub: failover
def sub_fo(case):
    """Failover enumeration.  case: {k, prios, ranks, cfg, cache, methods, net, alphabet, assigns}"""
    install()
    k = case['k']
    prios = case['prios']
    net = case.get('net', NET)
    cfg = case['cfg']
    methods = case['methods']
    setname = case.get('set') or set_name(k, prios)
    devs = _Devs()
    outs = {}
    states = []
    nt = []
    n = 0
    minp = cfg.get('min_providers', 1)
    maxp = max(cfg.get('max_providers', 1), minp)
    maxe = cfg.get('max_errors', 4)
    cfgid = '%s/%s/%d%d%d%s/%s' % (setname, net, minp, cfg.get('max_providers', 1), maxe,
                                  'i' if cfg.get('ignore_priority') else '', ''.join('%d' % (r * 10) for r in case['ranks']))
    vals = case.get('vals') or {}
    if vals:
        cfgid += '/' + vals_tag(vals)
    srv = None
    db = None
    tmp = [None]
    order0 = ref_order(prios, case['ranks'])
    try:
        for outc in case['assigns']:
            for method in methods:
                if srv is None or case['cache'] == 'cold':
                    close_service(srv)
                    if db:
                        env.remove_db(db)
                    reset_env(net)
                    E.vals = vals
                    E.ranks = case['ranks']
                    E.perm = case.get('perm')
                    db = env.fresh_db_path('c20') if case['cache'] == 'cold' else None
                    if method != 'blockcount':
                        srv = new_service(setname, net, cfg, db or 'off')
                E.script = {(i, method): outc[i] for i in range(k)}
                E.static = {(i, method): 'nomethod' for i in range(k) if outc[i] == 'nomethod'}
                E.counts = {}
                E.shuffled = None
                args = call_args(method, net, case.get('key', 'A'))
                pargs = provider_args(method, args)
                mp, me, order = maxp, maxe, None
                if method == 'blockcount':
                    # the block count query of a new Service: Service.__init__ asks the providers (through a
                    # default-configured inner Service when min_providers > 1)
                    def construct():
                        close_service(tmp[0])
                        tmp[0] = None
                        tmp[0] = new_service(setname, net, cfg, db or 'off')
                        return tmp[0]._blockcount
                    obs = run_call(construct, method)
                    if minp > 1:
                        mp, me, order = 1, 4, order0
                else:
                    obs = run_call(call_method(srv, method, args), method)
                if order is None:
                    order = [_pidx(x) for x in E.shuffled] if cfg.get('ignore_priority') and E.shuffled else order0
                n += 1
                label, dev, detail = judge(method, net, k, order, outc, mp, me, args, pargs, obs)
                lab = method + ':' + label.split(':')[0]
                outs[lab] = outs.get(lab, 0) + 1
                if obs['log']:
                    nt.append('%s|%s|%s|%s' % (cfgid, case['cache'], _abbr(outc), method))
                if dev:
                    d = {'k': k, 'prios': prios, 'order': order, 'cfg': cfg, 'cache': case['cache'], 'net': net,
                         'outcomes': outc, 'method': method, 'provider_values': vals, 'observed': _obs_json(obs)}
                    d.update(detail or {})
                    devs.add('%s|%s' % (method, dev), d)
            states.append('%s|%s|%s' % (cfgid, case['cache'], _abbr(outc)))
    finally:
        close_service(srv)
        close_service(tmp[0])
        if db:
            env.remove_db(db)
    return {'devs': devs.list(), 'n': n, 'nt': nt, 'out': outs, 'states': states, 'trans': n, 'traces': n}


# ======================================================================================= sub: chunked getbalance
def sub_multi(case):
    """getbalance over two request chunks (addresses_per_request=1): the total must be the sum of what the
    answering provider of each chunk returned, or the call must fail - never a partial sum.
    case: {k, cfg, ranks, seqs: [[outcome of provider p in query 0, in query 1] ...] list}"""
    install()
    k = case['k']
    cfg = case['cfg']
    net = NET
    prios = [1] * k
    setname = set_name(k, prios)
    c = fx().by_net[net]
    minp = cfg.get('min_providers', 1)
    maxp = max(cfg.get('max_providers', 1), minp)
    maxe = cfg.get('max_errors', 4)
    order = ref_order(prios, case['ranks'])
    devs = _Devs()
    outs = {}
    states = []
    nt = []
    n = 0
    reset_env(net)
    E.ranks = case['ranks']
    srv = new_service(setname, net, cfg, 'off')
    chunks = [[c.X], [c.Y]]
    cfgid = '%s/%d%d%d/%s' % (setname, minp, maxp, maxe, ''.join('%d' % (r * 10) for r in case['ranks']))
    for seqs in case['seqs']:
        E.script = {(i, 'getbalance'): list(seqs[i]) for i in range(k)}
        E.counts = {}
        obs = run_call(lambda: srv.getbalance([c.X, c.Y], addresses_per_request=1), 'getbalance')
        n += 1
        key = '/'.join(_abbr(x) for x in seqs)
        states.append('multi|%s|%s' % (cfgid, key))
        nt.append('%s|%s' % (cfgid, key))
        dev = None
        answers = []
        must_fail = None
        for j, rec in enumerate(obs['recs']):
            if j >= 2:
                dev = 'multi|more_queries_than_chunks'
                break
            outc = [seqs[i][j] for i in range(k)]
            traces = ref_failover(order, outc, maxp, maxe)
            ex = [t for t in traces if t['called'] == rec['called'] and t['errors'] == rec['errors'] and
                  t['results'] == rec['results']]
            if not ex:
                dev = _bookkeeping_class(traces, rec)
                break
            t = ex[0]
            if t['answer'] is None:
                must_fail = must_fail or ('error_limit' if t['abort'] else 'no_answer')
                answers.append(None)
            else:
                cls = outc[t['answer']]
                answers.append(ok_value('getbalance', t['answer'], (chunks[j],), net) if cls == 'ok' else 0)
        failed = is_failure('getbalance', obs)
        if dev is None:
            if must_fail:
                if failed:
                    label = 'fail'
                else:
                    got = obs['ret']
                    part = [a for a in answers if a is not None]
                    if part and got == sum(part) and not isinstance(got, bool):
                        dev = '%s|partial_sum_of_answered_chunks' % must_fail
                    elif not part and got == 0 and not isinstance(got, bool):
                        dev = '%s|returns_0' % must_fail
                    else:
                        dev = '%s|returns_other' % must_fail
            elif failed:
                dev = 'provider_answered|call_failed_%s' % (obs.get('exc') or 'False')
            elif len(answers) != 2:
                dev = 'multi|chunk_not_queried'
            elif not _same_plain(obs['ret'], sum(answers)):
                dev = 'multi|sum_differs'
            else:
                label = 'answer'
        if dev:
            label = 'dev'
            devs.add('getbalance|%s' % dev, {'k': k, 'cfg': cfg, 'order': order, 'per_query_outcomes': seqs,
                                              'observed': _obs_json(obs), 'chunk_answers': answers,
                                              'queries': [{x: r.get(x) for x in ('called', 'errors', 'results')}
                                                          for r in obs['recs']]})
        outs[label] = outs.get(label, 0) + 1
    close_service(srv)
    return {'devs': devs.list(), 'n': n, 'nt': nt, 'out': outs, 'states': states, 'trans': n, 'traces': n}


# ======================================================================================= sub: cache histories
HEALTH = {'H': ['ok', 'ok', 'ok'], 'F': ['cerr', 'ok', 'ok'], 'D': ['cerr', 'cerr', 'cerr'],
          'M': ['mal', 'ok', 'ok'], 'E': ['exc', 'false', 'ok'],
          # the first provider answers a falsy fee estimate (0 / None); other methods: healthy
          'Z': ['empty', 'ok', 'ok'], 'N': ['none', 'ok', 'ok']}
TXKEY = {'A': 'TA', 'B': 'TB', 'C': 'TC', 'D': 'TD', 'U': 'TU', 'K': 'K1', 'L': 'K4'}


def fee_bucket(blocks):
    return 'high' if blocks <= 1 else 'medium' if blocks <= 5 else 'low'


FEE_PRIORITIES = ('low', 'medium', 'high')


def fee_event_args(key):
    """Arguments of an estimatefee event.  key: '<n>' -> (n,); '' -> () (documented default: 5 blocks);
    '<priority>' -> (5, priority), i.e. estimatefee(priority=...); '<n>:<priority>' -> (n, priority)."""
    if ':' in key:
        blocks, prio = key.split(':')
    elif key in FEE_PRIORITIES:
        blocks, prio = '', key
    else:
        blocks, prio = key, ''
    if prio and prio not in FEE_PRIORITIES:
        raise HarnessBug('unknown fee priority %r' % (prio,))
    if prio:
        return (int(blocks) if blocks else 5, prio)
    return (int(blocks),) if blocks else ()


def ref_fee_request(args):
    """Reference for an estimatefee call: (exact confirmation target or None, admissible fee classes).
    Without a priority the providers are asked for exactly the target given (default 5) and the cache class is
    the documented one of that target.  A priority "overwrites the value supplied in blocks": which target the
    library picks for it is not documented, only that 'low' is a fee for slow confirmation (class low) and 'high'
    one for fast confirmation (not class low); 'medium' is the default target."""
    blocks = args[0] if len(args) > 0 else 5
    prio = args[1] if len(args) > 1 else ''
    if prio == 'low':
        return None, ('low',)
    if prio == 'high':
        return None, ('high', 'medium')
    return blocks, (fee_bucket(blocks),)


def chain_spent(c, txid, n):
    for name in c.chain:
        for i in c.txs[name]['rtx'].vin:
            if i['txid'][::-1].hex() == txid and i['vout'] == n:
                return True
    return False


class CacheModel(object):
    """What the cache may hold, as a plain dict model: only answers that passed through the service."""

    def __init__(self):
        self.tx = {}        # txid -> set of ('ok', pidx) | ('mal', other_name, pidx)
        self.blocks = {}    # height -> set of pidx
        self.fee = {}       # bucket -> (value returned and stored, expiry, fabricated, the provider's own figure)
        self.bc_db = None   # (set of values the stored count may have, expiry)
        self.bc_mem = None  # (set of values, time) in-memory copy of the current Service instance
        self.bc_seen = set()
        self.bal = {}       # address -> set of balances a provider answered for a request of this address alone
        self.computed = set()   # addresses whose balance the cache may have computed from a stored history / utxo list
        self.multi = set()  # totals over two or more addresses (answers to multi-address requests, running totals)

    def note_blockcount_queries(self, pe, clock, fresh_instance=False):
        """Block count queries (also those made inside other calls) refresh the stored and in-memory copy;
        the library keeps the larger of the old in-memory value and the new answer."""
        vals = set()
        for r in pe:
            if r['method'] == 'blockcount' and r['results']:
                vals.add(200 + r['results'][0])
        if not vals:
            return
        if self.bc_db:
            vals |= self.bc_db[0]
        if self.bc_mem and not fresh_instance:
            vals |= self.bc_mem[0]
        self.bc_db = (vals, clock + 60)
        self.bc_mem = (set(vals), clock)

    def canon(self, clock):
        return [sorted((k, sorted(map(str, v))) for k, v in self.tx.items()),
                sorted((k, sorted(v)) for k, v in self.blocks.items()),
                sorted((k, v[0], v[1] > clock) for k, v in self.fee.items()),
                None if not self.bc_db else [sorted(self.bc_db[0]), self.bc_db[1] > clock],
                None if not self.bc_mem else [sorted(self.bc_mem[0]), clock - self.bc_mem[1] <= 3],
                sorted((k, sorted(v)) for k, v in self.bal.items()), sorted(self.computed)]


def _tx_match(net, got, name, allowed, cmp_keys=TX_CMP):
    """Provider index whose copy of transaction `name` equals the read-out, among the allowed ones."""
    for p in allowed:
        if not tx_diff(got, ref_tx_summary(net, name, p), cmp_keys):
            return p
    return None


def judge_cached(method, net, key, args, val, model, clock):
    """A value was returned and no provider was asked: it must equal what was stored.
    Returns (label, deviation class or None)."""
    c = fx().by_net[net]
    if method in ('gettransaction', 'getrawtransaction'):
        txid = args[0]
        name = c.by_id[txid]['name']
        cands = model.tx.get(txid)
        if not cands:
            return 'dev', 'cache|serves_transaction_never_stored'
        okp = [x[1] for x in cands if x[0] == 'ok']
        mal = [x for x in cands if x[0] == 'mal']
        if method == 'getrawtransaction':
            if okp and val == c.txs[name]['raw']:
                return 'cache', None
            for _, other, p in mal:
                if val == c.txs[other]['raw']:
                    return 'dev', 'cache|serves_raw_of_other_tx_stored_under_requested_txid'
            return 'dev', 'cache|raw_differs_from_stored_transaction'
        got = tx_summary(val) if hasattr(val, 'inputs') else {}
        if _tx_match(net, got, name, okp) is not None:
            return 'cache', None
        for _, other, p in mal:
            d = tx_diff(got, ref_tx_summary(net, other, p))
            if d == ['txid'] and got.get('txid') == txid:
                return 'dev', 'cache|serves_other_tx_stored_under_requested_txid'
        if okp:
            return 'dev', 'cache|differs_from_stored:' + ','.join(tx_diff(got, ref_tx_summary(net, name, okp[0])))
        return 'dev', 'cache|differs_from_stored'
    if method == 'isspent':
        txid, n = args
        if not model.tx.get(txid):
            return 'dev', 'cache|serves_spent_flag_of_transaction_never_stored'
        if [x for x in model.tx[txid] if x[0] == 'mal'] and not [x for x in model.tx[txid] if x[0] == 'ok']:
            return 'dev', 'cache|serves_spent_flag_of_other_tx_stored_under_requested_txid'
        return ('cache', None) if val is chain_spent(c, txid, n) else ('dev', 'cache|spent_flag_differs_from_stored_data')
    if method == 'estimatefee':
        return judge_cached_fee(ref_fee_request(args)[1], val, model, clock)
    if method == 'getblock':
        height, parse, page, limit = block_request(args)
        cands = model.blocks.get(height)
        if not cands:
            return 'dev', 'cache|serves_block_never_stored'
        if not hasattr(val, 'block_hash'):
            return 'dev', 'cache|not_a_block'
        got = block_summary(val)
        hit = [p for p in cands if got == ref_block_summary(block_dict(c, height, p, False, 1, 25, net))]
        if not hit:
            return 'dev', 'cache|block_differs_from_stored'
        return judge_cached_block_page(net, c, height, parse, page, limit, val, model)
    return 'dev', 'cache|unexpected_cache_answer'


def judge_cached_fee(classes, val, model, clock):
    """A fee estimate served without asking a provider: it must be the answer the service gave (and stored) when a
    provider was last asked for this fee class, not older than 600 s.  classes: the admissible fee classes of the
    request."""
    sts = [model.fee[b] for b in classes if b in model.fee]
    if not sts:
        if any(_same_plain(val, st[0]) for b, st in model.fee.items() if st[1] > clock):
            return 'dev', 'cache|serves_fee_stored_for_another_confirmation_class'
        return 'dev', 'cache|serves_fee_never_stored'
    live = [st for st in sts if st[1] > clock]
    if not live:
        return 'dev', 'cache|serves_expired_fee'
    hit = [st for st in live if _same_plain(val, st[0])]
    if hit:
        return ('dev', 'cache|serves_stored_network_default_fee') if hit[0][2] else ('cache', None)
    if any(st[3] is not None and _same_plain(val, st[3]) for st in live):
        # the provider's own figure, where the call that fetched it returned that figure limited to the fee range
        return 'dev', 'cache|serves_provider_fee_unlimited_where_the_call_returned_it_limited_to_the_fee_range'
    if any(_same_plain(val, st[0]) for b, st in model.fee.items() if b not in classes and st[1] > clock):
        return 'dev', 'cache|serves_fee_stored_for_another_confirmation_class'
    return 'dev', 'cache|fee_differs_from_stored'


def judge_cached_block_page(net, c, height, parse, page, limit, val, model):
    """The transactions of a block served from the cache for (page, limit): exactly the transactions number
    (page-1)*limit .. page*limit-1 of the block in block order (what every responding provider answers for that
    page), each one equal to a copy that was stored.  Fewer than that is partial data."""
    names = block_page(height, page, limit)
    exp_ids = [c.txs[x]['txid'] for x in names]
    all_ids = [c.txs[x]['txid'] for x in BLOCKS[height]]
    txs = getattr(val, 'transactions', None) or []
    if parse and not all(hasattr(t, 'inputs') for t in txs):
        return 'dev', 'cache|block_page_not_a_list_of_transactions'
    if not parse and not all(isinstance(t, str) for t in txs):
        return 'dev', 'cache|block_page_not_a_list_of_txids'
    ids = [t.txid for t in txs] if parse else list(txs)
    if ids != exp_ids:
        if len(set(ids)) < len(ids):
            return 'dev', 'cache|block_page_duplicate_transactions'
        if all(i in exp_ids for i in ids):
            if ids == [i for i in exp_ids if i in ids]:
                # (an empty list for a non-empty page is the same thing: nothing of the page, no error)
                return 'dev', 'cache|block_page_incomplete_partial_data'
            return 'dev', 'cache|block_page_order_differs_from_block'
        if all(i in all_ids for i in ids):
            return 'dev', 'cache|block_page_holds_transactions_of_another_page'
        return 'dev', 'cache|block_transactions_differ_from_stored'
    for t, name in zip(txs, names):
        stored = [x[1] for x in model.tx.get(c.txs[name]['txid'], ()) if x[0] == 'ok']
        if not stored:
            return 'dev', 'cache|block_page_serves_transaction_never_stored'
        if parse and _tx_match(net, tx_summary(t), name, stored) is None:
            return 'dev', 'cache|block_transactions_differ_from_stored'
    return 'cache', None


def judge_blockcount(obs, outc, order, maxp, maxe, model, clock, health, fresh_instance):
    recs = obs['recs']
    failed = is_failure('blockcount', obs)
    if not recs:
        if failed:
            return 'dev', 'cache|failed_without_asking_providers'
        val = obs['ret']
        plain = isinstance(val, int) and not isinstance(val, bool)
        if plain and model.bc_db and model.bc_db[1] > clock and val in model.bc_db[0]:
            return 'cache', None
        if plain and not fresh_instance and model.bc_mem and clock - model.bc_mem[1] <= 3 and val in model.bc_mem[0]:
            return 'memory', None
        if plain and model.bc_db and val in model.bc_db[0]:
            return 'dev', 'cache|serves_expired_blockcount'
        return 'dev', 'cache|blockcount_differs_from_stored'
    traces = ref_failover(order, outc, maxp, maxe)
    rec = recs[0]
    ex = [t for t in traces if t['called'] == rec['called'] and t['errors'] == rec['errors'] and
          t['results'] == rec['results']]
    if not ex:
        return 'dev', _bookkeeping_class(traces, rec)
    if failed:
        if ex[0]['answer'] is None or health == 'D':
            return 'fail', None
        return 'dev', 'provider_answered|call_failed_%s' % (obs.get('exc') or 'False')
    val = obs['ret']
    genuine = set()
    for r in recs:
        for p in r['results']:
            genuine.add(200 + p)
    if model.bc_db:
        genuine |= model.bc_db[0]
    if model.bc_mem and not fresh_instance:
        genuine |= model.bc_mem[0]
    if isinstance(val, bool) or val not in genuine:
        if ex[0]['answer'] is None:
            return 'dev', '%s|returns_other_%s' % ('error_limit' if ex[0]['abort'] else 'no_answer', type(val).__name__)
        return 'dev', 'answered_ok|value_no_provider_returned'
    return 'answer', None


# ---------------------------------------------------------------------------------------- batched balance queries
ADDR = {'X': 'X', 'Y': 'Y', 'W': 'W', 'Z': 'Z', 'V': 'V', 'U': 'V2'}
APR_DEFAULT = 5         # documented default of addresses_per_request


def _addr(c, letter):
    return getattr(c, ADDR[letter])


def bal_event_args(c, key):
    """Arguments of a getbalance event.  key: '<letters>' (address list, addresses_per_request not passed) or
    '<letters>:<n>' (addresses_per_request=n)."""
    letters, _, apr = key.partition(':')
    lst = [_addr(c, x) for x in letters]
    return (lst, int(apr)) if apr else (lst,)


def ref_balance_totals(addresses, rounds, cached):
    """Reference for a balance query over a list of addresses that is split over several provider requests and
    partly answered from the cache.

    addresses: the distinct addresses asked for; rounds: [[request list, answer of the responding provider]] of the
    answered provider requests; cached: address -> set of balances the cache may serve for it.
    The total is the sum of the provider answers plus, for every address that was in no request, one balance the
    cache may hold for it; every address is counted exactly once.  Returns (set of admissible totals, problem)."""
    cnt = dict((a, 0) for a in addresses)
    for req, _ in rounds:
        for a in req:
            if a not in cnt:
                return set(), 'request|address_that_was_not_asked_for'
            cnt[a] += 1
    if any(v > 1 for v in cnt.values()):
        return set(), 'request|address_requested_twice'
    totals = set([sum(ans for _, ans in rounds)])
    for a in addresses:
        if not cnt[a]:
            if not cached.get(a):
                return set(), 'value|address_neither_requested_nor_cached'
            totals = set(t + v for t in totals for v in cached[a])
    return totals, None


def classify_wrong_total(val, totals, addresses, rounds, cached, truth_of):
    """Name how a returned total differs from the admissible ones."""
    if isinstance(val, bool) or not isinstance(val, int):
        return 'value|total_not_a_number'
    per_addr = []
    for a in addresses:
        vals = set(cached.get(a, ()))
        for req, ans in rounds:
            if a in req and len(req) == 1:
                vals.add(ans)
            elif a in req:
                vals |= set(truth_of(a, p) for p in range(KMAX))
        per_addr.append(vals)
    if any(val + v in totals for vs in per_addr for v in vs if v):
        return 'value|address_left_out_of_the_total'
    if any(val - v in totals for vs in per_addr for v in vs if v):
        return 'value|address_counted_twice'
    return 'value|total_differs_from_provider_and_cached_answers'


def judge_getbalance(c, net, args, obs, model, outc, order, maxp, maxe):
    """getbalance(address list[, addresses_per_request]) inside a cache history that did not fail.
    Returns (label, deviation class or None, detail)."""
    addresses = list(args[0])
    apr = args[1] if len(args) > 1 else APR_DEFAULT
    single = len(addresses) == 1
    val = obs['ret']
    name_of = dict((_addr(c, x), x) for x in ADDR)
    rounds, unanswered, requests = [], [], []
    for rec in obs['recs']:
        entries = [l for l in obs['log'][rec['log0']:rec['log1']] if l[1] == 'getbalance']
        if not entries or not entries[0][3][0]:
            continue            # nobody asked, or asked for an empty list (everything was served from the cache)
        req = list(entries[0][3][0])
        if any(list(l[3][0]) != req for l in entries):
            return 'dev', 'request|providers_of_one_query_asked_for_different_lists', {}
        requests.append([name_of.get(a, a) for a in req])
        if len(req) > apr:
            return 'dev', 'request|more_addresses_than_addresses_per_request', {'requests': requests, 'limit': apr}
        if rec['results']:
            p = rec['results'][0]
            rounds.append([req, ok_value('getbalance', p, (req,), net), p])
        else:
            unanswered.append(req)
    cached = {}
    for a in addresses:
        adm = set(model.bal.get(a, ()))
        if a in model.computed:
            adm.add(chain_balance(c, a))
        cached[a] = adm
    detail = {'addresses': [name_of.get(a, a) for a in addresses], 'addresses_per_request': apr,
              'provider_requests': requests, 'answers': [[r[2], r[1]] for r in rounds]}
    if unanswered:
        # a request that no provider answered: the call had to fail
        t = ref_failover(order, outc, maxp, maxe)
        cause = 'error_limit' if t[0]['abort'] else 'no_answer'
        rest = [a for a in addresses if not any(a in req for req in unanswered)]
        totals, _ = ref_balance_totals(rest, [r[:2] for r in rounds], cached)
        if not isinstance(val, bool) and val == 0 and not rounds and (not rest or 0 in totals):
            return 'dev', '%s|returns_0' % cause, detail
        if not isinstance(val, bool) and val in totals:
            return 'dev', '%s|partial_sum_of_answered_chunks' % cause, detail
        return 'dev', '%s|returns_other' % cause, detail
    totals, problem = ref_balance_totals(addresses, [r[:2] for r in rounds], cached)
    detail['admissible'] = sorted(totals)[:8]
    if isinstance(val, bool) or val not in totals:
        if single:
            return 'dev', 'value|balance_no_provider_returned_nor_stored', detail
        if problem:
            return 'dev', problem, detail
        return 'dev', classify_wrong_total(val, totals, addresses, [r[:2] for r in rounds], cached,
                                           lambda a, p: chain_balance(c, a) + 7 + p), detail
    # ---- model update: an answer to a request of one address alone is a balance a provider reported for it
    for req, ans, p in rounds:
        if len(req) == 1:
            model.bal.setdefault(req[0], set()).add(ans)
        else:
            model.multi.add(ans)
    if not single:
        # running totals over two or more addresses (in the order cache part, then the requests)
        covered = len(addresses) - sum(len(r[0]) for r in rounds)
        run = val - sum(r[1] for r in rounds)
        if covered > 1:
            model.multi.add(run)
        for req, ans, p in rounds:
            covered += len(req)
            run += ans
            if covered > 1:
                model.multi.add(run)
    if not rounds:
        return 'cache', None, {}
    served = len(addresses) - sum(len(r[0]) for r in rounds)
    return ('answer' if single or not served else 'answer+cache'), None, {}


def sub_hist(case):
    """Histories of Service calls over one sqlite cache.  case: {family, net, cfg, hists: [[event...]...]}
    event: ['Q', method, key, health] | ['T', seconds] | ['R', health]"""
    install()
    net = case.get('net', NET)
    cfg = case['cfg']
    k = 3
    prios = [1, 1, 1]
    setname = set_name(k, prios)
    c = fx().by_net[net]
    minp = cfg.get('min_providers', 1)
    maxp = max(cfg.get('max_providers', 1), minp)
    maxe = cfg.get('max_errors', 4)
    order = [0, 1, 2]
    devs = _Devs()
    outs = {}
    states = set()
    nt = []
    n = 0
    forms = case.get('forms') or {}
    vals = case.get('vals') or {}
    cfgid = '%s/%s/%d%d%d' % (case['family'], net, minp, maxp, maxe)
    if forms:
        cfgid += '/' + forms_tag(forms)
    if vals:
        cfgid += '/' + vals_tag(vals)
    if case.get('foreign'):
        cfgid += '/after_other_network'
    from bitcoinlib.networks import Network
    nw = Network(net)
    default_fee = min(max(nw.fee_default, nw.fee_min), nw.fee_max) if nw.fee_default else None

    def set_health(h, method=None):
        outc = HEALTH[h]
        E.script = {}
        for m in METHODS:
            for i in range(k):
                o = outc[i]
                if o == 'mal' and m != 'gettransaction':
                    o = 'ok'
                if o in ('empty', 'none') and m != 'estimatefee':
                    o = 'ok'
                E.script[(i, m)] = o
        return outc

    for hist in case['hists']:
        reset_env(net)
        db = env.fresh_db_path('c20h')
        if case.get('foreign'):
            # the cache database is shared by all networks (library default): another network has been used before
            # this history starts and has cached its blocks at the same heights, its block count and its fee
            # estimates.  The model of this history knows nothing of them - none of it may ever be served here.
            other = NETS[1] if net == NETS[0] else NETS[0]
            E.ranks = _ranks_for(order)
            E.foreign = True
            fs = None
            try:
                set_health('H')
                fs = new_service(setname, other, cfg, db)
                for h in sorted(BLOCKS):
                    fs.getblock(h, False)
                    fs.getblock(h)
                    fs.getblock(h, True, 1, 2)
                fs.blockcount()
                fs.estimatefee(3)
                fs.estimatefee(10)
            finally:
                E.foreign = False
                close_service(fs)
            reset_env(net)
        E.forms = forms
        E.vals = vals
        E.ranks = _ranks_for(order)
        model = CacheModel()
        srv = None
        old = []
        seen = set()
        cut = False
        try:
            set_health('H')
            srv = new_service(setname, net, cfg, db)
            model.bc_db = (set([200]), 60.0)
            model.bc_mem = (set([200]), 0.0)
            for step, ev in enumerate(hist):
                tag = '%s|%s' % (cfgid, json.dumps(hist[:step + 1]))
                dev = None
                label = None
                detail = {}
                if ev[0] == 'T':
                    E.clock += ev[1]
                    states.add(jh([cfgid, model.canon(E.clock), 'T']))
                    continue
                n += 1
                if ev[0] == 'R':
                    health = ev[1]
                    outc = set_health(health)
                    holder = [None]

                    def construct():
                        holder[0] = new_service(setname, net, cfg, db)
                        return holder[0]._blockcount
                    obs = run_call(construct, 'blockcount')
                    mp, me = (1, 4) if minp > 1 else (maxp, maxe)
                    label, dev = judge_blockcount(obs, outc, order, mp, me, model, E.clock, health, True)
                    if holder[0] is not None:
                        old.append(srv)
                        srv = holder[0]
                        model.bc_mem = None
                        if not is_failure('blockcount', obs) and isinstance(obs['ret'], int):
                            model.bc_mem = (set([obs['ret']]), E.clock)
                        model.note_blockcount_queries(E.pe, E.clock, fresh_instance=True)
                    method = 'construct'
                else:
                    _, method, key, health = ev
                    outc = set_health(health)
                    if method == 'blockcount':
                        obs = run_call(call_method(srv, method, ()), method)
                        label, dev = judge_blockcount(obs, outc, order, maxp, maxe, model, E.clock, health, False)
                    else:
                        label, dev, detail, obs = hist_query(srv, model, net, c, method, key, health, outc, order,
                                                             maxp, maxe, minp, default_fee)
                    model.note_blockcount_queries(E.pe, E.clock)
                if obs['log'] or label in ('cache', 'memory'):
                    nt.append(tag)
                lab = '%s:%s' % (method, (label or 'dev').split(':')[0])
                outs[lab] = outs.get(lab, 0) + 1
                if not dev and case['family'] in RECORD_ADDRESSES and ev[0] == 'Q':
                    rdev, rdetail = judge_address_records(srv, model, c, *RECORD_ADDRESSES[case['family']])
                    if rdev:
                        dev, detail = rdev, rdetail
                        method = 'after_' + method
                if not dev and case['family'] in COVERAGE_ADDRESSES and ev[0] == 'Q':
                    rdev, rdetail = judge_address_coverage(srv, model, c, COVERAGE_ADDRESSES[case['family']], seen)
                    if rdev:
                        dev, detail = rdev, rdetail
                        method = 'after_' + method
                        # (known defect: from here on the cache is in a state the model does not describe)
                        cut = rdev.endswith(NO_HEIGHT)
                if dev:
                    d = {'family': case['family'], 'cfg': cfg, 'net': net, 'history': hist[:step + 1],
                         'provider_copies': forms, 'provider_values': vals,
                         'clock': E.clock, 'observed': _obs_json(obs),
                         'queries': [{x: r.get(x) for x in ('method', 'called', 'errors', 'results')}
                                     for r in E.pe][:8]}
                    d.update(detail or {})
                    devs.add('%s|%s' % (method, dev), d)
                states.add(jh([cfgid, model.canon(E.clock), ev[-1]]))
                if cut:
                    break
        finally:
            close_service(srv)
            for o in old:
                close_service(o)
            env.remove_db(db)
    return {'devs': devs.list(), 'n': n, 'nt': nt, 'out': outs, 'states': sorted(states), 'trans': n,
            'traces': len(case['hists'])}


RECORD_ADDRESSES = {'addr': (('Y', 'W'), ()), 'bal': (('Y', 'W'), ()), 'batch': (('Y', 'W', 'Z', 'X'), ('V', 'U'))}


def judge_address_records(srv, model, c, addresses, balance_only=()):
    """The cached per-address summary (what getcacheaddressinfo / the cache path of getbalance serve) must hold
    figures that a provider reported for that address or that follow from the stored provider answers: the
    balance is unknown (falsy) or the balance of the provider chain or a stored getbalance answer for this address
    alone; n_utxos is unknown or the number of unspent outputs; n_txs is unknown or the number of transactions of
    the address (the two counts are not looked at for the addresses in balance_only)."""
    for name in tuple(addresses) + tuple(balance_only):
        address = _addr(c, name)
        try:
            info = srv.getcacheaddressinfo(address)
        except Exception as e:
            return 'getcacheaddressinfo|raises_%s' % type(e).__name__, {'address': name}
        bal = info.get('balance')
        adm = set([chain_balance(c, address)]) | set(model.bal.get(address, ()))
        if bal and bal not in adm:
            utx = [u[2] for u in addr_utxos(c, address)]
            partial = any(bal == sum(utx[i:]) for i in range(1, len(utx)))
            return 'cached_address_record|%s' % ('balance_is_partial_sum_of_unspent_outputs' if partial else
                                                  'balance_is_total_over_several_addresses' if bal in model.multi
                                                  else 'balance_no_provider_reported_nor_stored'), \
                {'address': name, 'info': {k: v for k, v in info.items() if k != 'address'}, 'admissible': sorted(adm)}
        if name in balance_only:
            continue
        if info.get('n_utxos') is not None and info['n_utxos'] != len(addr_utxos(c, address)):
            return 'cached_address_record|n_utxos_differs_from_provider_answers', \
                {'address': name, 'info': {k: v for k, v in info.items() if k != 'address'},
                 'unspent_outputs': len(addr_utxos(c, address))}
        if info.get('n_txs') is not None and info['n_txs'] != len(addr_history(c, address)):
            return 'cached_address_record|n_txs_differs_from_provider_answers', \
                {'address': name, 'info': {k: v for k, v in info.items() if k != 'address'},
                 'transactions': len(addr_history(c, address))}
    return None, None


COVERAGE_ADDRESSES = {'incomplete': ('Y', 'X', 'W')}
TIP = 200       # lowest block count a provider reports


def forms_tag(forms):
    return ','.join('%s=%s' % (k, v if isinstance(v, str) else '/'.join(v)) for k, v in sorted(forms.items()))


def ref_uncovered(history, heights, last_block, held):
    """Reference for the coverage claim of a cached address record: `last_block` says that the cache holds the
    history of the address up to that block.  history: transactions of the address, oldest first; heights: name ->
    block height; held: names the cache may hold.  Returns (gap, newest): the transactions up to last_block that
    the cache never held, split into those that lie before a transaction it holds and those after the last one."""
    due = [n for n in history if heights[n] <= last_block]
    have = [k for k, n in enumerate(due) if n in held]
    last = have[-1] if have else -1
    gap = [n for k, n in enumerate(due) if n not in held and k < last]
    newest = [n for k, n in enumerate(due) if n not in held and k > last]
    return gap, newest


NO_HEIGHT = 'last_block_is_block_count_although_a_transaction_was_refused_for_missing_block_height'


def judge_address_coverage(srv, model, c, addresses, seen):
    """The cached record of an address carries last_block = "the history of this address is in the cache up to this
    block": gettransactions does not ask any provider and getbalance serves the cached balance once last_block
    reaches the block count.  So every transaction of the address up to last_block must be one the cache may hold (a
    complete copy that some responding provider returned).  A record that claims to be current (last_block at the
    providers' block count) must also hold the figures of the whole chain; a record with an older or without a
    last_block is a bookmark whose figures no query is answered from, and they are not judged here (the families
    addr / bal / batch, where every provider copy is complete, judge them after every query).  seen: (address, class) pairs already reported in this history (the record stays as it is until it is
    written again; it is reported once, at the call that wrote it)."""
    for name in addresses:
        address = _addr(c, name)
        try:
            info = srv.getcacheaddressinfo(address)
        except Exception as e:
            return 'getcacheaddressinfo|raises_%s' % type(e).__name__, {'address': name}
        lb = info.get('last_block')
        if lb is not None and (isinstance(lb, bool) or not isinstance(lb, int)):
            return 'cached_address_record|last_block_not_a_number', {'address': name, 'last_block': repr(lb)}
        if lb:
            hist = addr_history(c, address)
            held = set(n for n in hist if [x for x in model.tx.get(c.txs[n]['txid'], ()) if x[0] == 'ok'])
            gap, newest = ref_uncovered(hist, dict((n, c.txs[n]['height']) for n in hist), lb, held)
            if gap or newest:
                # why the cache does not hold them: every incomplete provider copy lacks the block height (the
                # library then has no height to step the record back to) / anything else
                cause = set(tx_form(p, n) for n in gap + newest for p in range(3)) - set(['full'])
                cls = NO_HEIGHT if cause == set(['noheight']) and lb >= TIP else \
                    'last_block_covers_newest_transactions_the_cache_never_held' if newest else \
                    'last_block_covers_gap_before_a_cached_transaction'
                if (name, cls) in seen:
                    continue
                seen.add((name, cls))
                return 'cached_address_record|' + cls, \
                    {'address': name, 'info': {k: v for k, v in info.items() if k != 'address'},
                     'address_history': [[n, c.txs[n]['height']] for n in hist], 'cache_may_hold': sorted(held),
                     'never_held': gap + newest}
        if lb and lb >= TIP:
            rdev, rdetail = judge_address_records(srv, model, c, (name,))
            if rdev:
                return rdev, rdetail
    return None, None


def block_event_args(key):
    """Arguments of a getblock event.  key: '<id>' (all defaults) or '<id>:<T|F>:<page>:<limit|N>' with
    id = height or 'h<height>' (the block hash is passed), T/F = parse_transactions, N = limit not passed."""
    parts = key.split(':')
    blockid = block_hash(int(parts[0][1:])) if parts[0][0] == 'h' else int(parts[0])
    if len(parts) == 1:
        return (blockid,)
    parse = parts[1] == 'T'
    if parts[3] == 'N':
        return (blockid, parse, int(parts[2]))
    return (blockid, parse, int(parts[2]), int(parts[3]))


def jh(obj):
    import hashlib
    return hashlib.sha256(json.dumps(obj, sort_keys=True, default=str).encode()).hexdigest()[:16]


def hist_query(srv, model, net, c, method, key, health, outc, order, maxp, maxe, minp, default_fee):
    """One query event of a cache history: execute, judge, update the model."""
    if method in ('gettransaction', 'getrawtransaction'):
        args = (c.txs[TXKEY[key]]['txid'],)
    elif method == 'isspent':
        args = (c.txs[TXKEY[key[0]]]['txid'], int(key[1]))
    elif method == 'estimatefee':
        args = fee_event_args(key)
    elif method == 'getblock':
        args = block_event_args(key)
    elif method == 'gettransactions':
        args = (_addr(c, key[0]), '', int(key[1:]))
    elif method == 'getutxos':
        args = (_addr(c, key[0]),) if len(key) == 1 else (_addr(c, key[0]), '', int(key[1:]))
    elif method == 'getbalance':
        args = bal_event_args(c, key)
    else:
        raise HarnessBug(method)
    obs = run_call(call_method(srv, method, args), method)
    recs = obs['recs']
    failed = is_failure(method, obs)
    detail = {}
    label, dev = None, None
    first = [l for l in obs['log'] if l[1] == method]
    pargs = tuple(first[0][3]) if first else provider_args(method, args)
    answerer = recs[-1]['results'][0] if recs and recs[-1]['results'] else None
    # ---- bookkeeping of every provider query for this method
    for rec in recs:
        traces = ref_failover(order, outc, maxp, maxe)
        if not [t for t in traces if t['called'] == rec['called'] and t['errors'] == rec['errors'] and
                t['results'] == rec['results']]:
            return 'dev', _bookkeeping_class(traces, rec), {'admissible': traces[:3]}, obs
    if method == 'estimatefee' and first:
        # what the providers were asked for: exactly the confirmation target of the call, or - with a priority - a
        # target of the fee class the priority stands for; all providers of the call for the same target
        target, classes = ref_fee_request(args)
        asked = [tuple(l[3]) for l in first]
        rdev = None
        if any(len(a) != 1 or isinstance(a[0], bool) or not isinstance(a[0], int) for a in asked):
            rdev = 'request|providers_not_asked_for_a_number_of_blocks'
        elif len(set(asked)) > 1:
            rdev = 'request|providers_of_one_query_asked_for_different_targets'
        elif target is not None and asked[0][0] != target:
            rdev = 'request|providers_asked_for_another_confirmation_target'
        elif fee_bucket(asked[0][0]) not in classes:
            rdev = 'request|providers_asked_for_a_target_of_another_priority'
        if rdev:
            return 'dev', rdev, {'call_arguments': list(args), 'providers_asked_for': [list(a) for a in asked]}, obs
    if method in ('gettransaction', 'getrawtransaction', 'isspent', 'estimatefee', 'getblock'):
        if not recs:
            if failed:
                if health == 'D':
                    label = 'fail'       # an internal query (block count) found no provider
                else:
                    dev = 'cache|failed_without_asking_providers'
            else:
                label, dev = judge_cached(method, net, key, args, obs['ret'], model, E.clock)
                if dev and method == 'getblock':
                    height, parse, page, limit = block_request(args)
                    txs = getattr(obs['ret'], 'transactions', None) or []
                    ids = [getattr(t, 'txid', t) for t in txs]
                    detail = {'request': {'height': height, 'parse_transactions': parse, 'page': page, 'limit': limit},
                              'page_of_the_block': block_page(height, page, limit),
                              'served_from_cache': [c.by_id[i]['name'] if i in c.by_id else str(i)[:64] for i in ids]}
        else:
            label, dev, detail = judge(method, net, 3, order, outc, maxp, maxe, args, pargs, obs)
            if dev and failed and health == 'D':
                label, dev = 'fail', None
        # ---- model update
        if recs and not failed and answerer is not None:
            cls = outc[answerer]
            if method == 'gettransaction' and minp <= 1:
                name = c.by_id[args[0]]['name']
                if cls == 'ok' and storable(answerer, name):
                    model.tx.setdefault(args[0], set()).add(('ok', answerer))
                elif cls == 'mal':
                    other = 'TB' if name != 'TB' else 'TA'
                    if storable(answerer, other):
                        model.tx.setdefault(args[0], set()).add(('mal', other, answerer))
            if method == 'getblock' and cls == 'ok':
                height, parse, page, limit = block_request(args)
                model.blocks.setdefault(height, set()).add(answerer)
                if minp <= 1 and parse:
                    # every complete transaction of the answered page may now be cached
                    for name in block_page(height, page, limit):
                        if storable(answerer, name):
                            model.tx.setdefault(c.txs[name]['txid'], set()).add(('ok', answerer))
            if method == 'estimatefee':
                if cls == 'ok':
                    model.fee[fee_bucket(pargs[0])] = (obs['ret'], E.clock + 600, False,
                                                       ok_value(method, answerer, pargs, net))
                elif cls in ('empty', 'none') and obs['ret']:
                    # a falsy estimate replaced by the network's default fee: fee policy, the figure may be cached
                    model.fee[fee_bucket(pargs[0])] = (obs['ret'], E.clock + 600, False, None)
        if method == 'estimatefee' and recs and not failed and default_fee is not None and \
                _same_plain(obs['ret'], default_fee) and answerer is None:
            model.fee[fee_bucket(pargs[0])] = (default_fee, E.clock + 600, True, None)
        return label, dev, detail, obs
    # ---- address based queries: cached part + provider part
    if failed:
        if health == 'D':
            return 'fail', None, {}, obs
        if recs:
            t = ref_failover(order, outc, maxp, maxe)
            if all(x['answer'] is None for x in t):
                return 'fail', None, {}, obs
        return 'dev', 'provider_answered|call_failed_%s' % (obs.get('exc') or 'False'), {}, obs
    val = obs['ret']
    answerers = sorted(set(p for r in recs for p in r['results'][:1]))
    if method == 'gettransactions':
        address, _, limit = args
        exp = ref_history_after(c, address, '')[:limit]
        if not isinstance(val, list) or not all(hasattr(t, 'inputs') for t in val):
            return 'dev', 'list|not_a_list_of_transactions', {}, obs
        got_ids = [t.txid for t in val]
        exp_ids = [c.txs[x]['txid'] for x in exp]
        if got_ids != exp_ids:
            detail = {'expected': exp, 'got': [c.by_id[i]['name'] if i in c.by_id else i for i in got_ids]}
            if len(set(got_ids)) < len(got_ids):
                return 'dev', 'list|duplicate_transactions', detail, obs
            full = [c.txs[x]['txid'] for x in ref_history_after(c, address, '')]
            if all(i in full for i in got_ids) and got_ids == [i for i in full if i in got_ids]:
                missing = [i for i in full[:full.index(got_ids[-1])] if i not in got_ids] if got_ids else []
                if missing and not any(model.tx.get(i) for i in missing) and \
                        any(model.tx.get(i) for i in got_ids if full.index(i) > full.index(missing[0])):
                    # a later transaction of this address was cached through another query; the cached
                    # ones are taken for a complete prefix and the providers are only asked for newer ones
                    return 'dev', 'partially_filled_cache|transactions_before_a_cached_one_missing', detail, obs
            if not recs and set(got_ids) < set(exp_ids) and \
                    not any(model.tx.get(i) for i in exp_ids if i not in got_ids):
                # no provider was asked although transactions of the address are in the list that the cache never
                # held (a provider's copy was incomplete and refused by the cache): the cached part of the history
                # is served as the whole history - also when no provider would answer, where the call has to fail
                detail['never_cached'] = [c.by_id[i]['name'] for i in exp_ids if i not in got_ids]
                return 'dev', 'partially_filled_cache|cached_part_served_as_whole_history_no_provider_asked', \
                    detail, obs
            if got_ids == exp_ids[:len(got_ids)]:
                return 'dev', 'list|truncated', detail, obs
            if set(got_ids) < set(exp_ids):
                return 'dev', 'list|transactions_missing', detail, obs
            return 'dev', 'list|other_transactions', detail, obs
        for t, name in zip(val, exp):
            allowed = set(answerers) | set(x[1] for x in model.tx.get(t.txid, ()) if x[0] == 'ok')
            if _tx_match(net, tx_summary(t), name, sorted(allowed)) is None:
                return 'dev', 'list|transaction_differs_from_provider_and_stored_copies', \
                    {'tx': name, 'allowed': sorted(allowed), 'got': tx_summary(t),
                     'ref0': ref_tx_summary(net, name, 0)}, obs
        if minp <= 1:
            # every complete transaction a provider returned in this call may now be cached
            for l in obs['log']:
                if l[1] == 'gettransactions' and l[2] == 'ok':
                    for name in ref_history_after(c, l[3][0], l[3][1])[:l[3][2]]:
                        if storable(l[0], name):
                            model.tx.setdefault(c.txs[name]['txid'], set()).add(('ok', l[0]))
        model.computed.add(address)
        return ('answer' if recs else 'cache'), None, {}, obs
    if method == 'getutxos':
        exp = [[u[0], u[1], u[2]] for u in addr_utxos(c, args[0])]
        try:
            got = [[u['txid'], u['output_n'], u['value']] for u in val]
        except Exception:
            return 'dev', 'list|not_a_list_of_utxos', {}, obs
        limit = args[2] if len(args) > 2 else 20
        # (with a limit: a prefix of the unspent outputs, at least `limit` of them when there are that many)
        if got != exp and not (got == exp[:len(got)] and len(got) >= min(limit, len(exp))):
            detail = {'expected': exp, 'got': got, 'limit': limit}
            if len(set(map(tuple, got))) < len(got):
                return 'dev', 'list|duplicate_utxos', detail, obs
            if all(g in exp for g in got):
                held = [bool(model.tx.get(e[0])) for e in exp]
                lost = [k for k, e in enumerate(exp) if e not in got]
                if got and all(not held[k] and any(held[j] and exp[j] in got for j in range(k + 1, len(exp)))
                               for k in lost):
                    # the outputs found in the cache are taken for a complete prefix of the list and the providers
                    # are only asked for newer ones; an older output whose transaction the cache never held is lost
                    return 'dev', 'partially_filled_cache|utxos_before_a_cached_one_missing', detail, obs
                return 'dev', 'list|utxos_missing', detail, obs
            return 'dev', 'list|other_utxos', detail, obs
        model.computed.add(args[0])
        return ('answer' if recs else 'cache'), None, {}, obs
    if method == 'getbalance':
        label, dev, detail = judge_getbalance(c, net, args, obs, model, outc, order, maxp, maxe)
        return label, dev, detail, obs
    raise HarnessBug(method)


# ======================================================================================= sub: constructor
def sub_ctor(case):
    """Configurations that the constructor normalises or refuses."""
    install()
    reset_env(NET)
    E.ranks = [0.6, 0.4]
    out = None
    devs = []
    try:
        srv = new_service(set_name(2, [1, 1]), NET, case, 'off')
        out = 'constructed'
        if case.get('min_providers', 1) > case.get('max_providers', 1) and srv.max_providers != srv.min_providers:
            devs.append({'sig': 'constructor|max_providers_not_raised_to_min_providers', 'detail': case})
        close_service(srv)
    except TypeError as e:
        out = 'refused_TypeError'
        if case.get('max_providers', 1) is not None:
            devs.append({'sig': 'constructor|TypeError', 'detail': {'cfg': case, 'exc': repr(e)}})
    return {'devs': devs, 'out': out, 'nt': [], 'states': ['ctor|%s' % json.dumps(case, sort_keys=True)],
            'trans': 1, 'traces': 1}


SUBS = {'fo': sub_fo, 'fo_testnet': sub_fo, 'fo_special': sub_fo, 'fo_cold': sub_fo, 'order': sub_fo,
        'multi': sub_multi, 'ctor': sub_ctor, 'hist': sub_hist, 'incomplete': sub_hist,
        'values': sub_hist, 'values_fo': sub_fo}


def selftest():
    rtx.selftest()
    codec.selftest()
    raddr.selftest()
    secp.selftest()
    _ref_selftest()
    f = fx()
    for net in NETS:
        c = f.by_net[net]
        # the fixture chain is self-consistent: every input spends an existing output of the stated value
        for name in c.chain + ['TU'] + BLOCKS[BLOCK_H]:
            d = c.txs[name]
            assert rtx.txid(rtx.parse(bytes.fromhex(d['raw']))) == d['txid']
            if d['coinbase']:
                continue
            for k, i in enumerate(d['rtx'].vin):
                prev = c.by_id[i['txid'][::-1].hex()]
                assert prev['rtx'].vout[i['vout']]['value'] == d['in'][k]['value']
                assert prev['out'][i['vout']] == d['in'][k]['addr']
        assert addr_history(c, c.X) == ['TC', 'TA', 'TB', 'TD'] and addr_history(c, c.Y) == ['TA', 'TD']
        assert addr_utxos(c, c.X) == [] and [u[1] for u in addr_utxos(c, c.Y)] == [0, 0]
        # the multi-transaction block does not touch the histories above, all its ids are distinct
        assert len(set(c.txs[x]['txid'] for x in BLOCKS[BLOCK_H])) == 5
        assert all(c.txs[x]['height'] == h for h, names in BLOCKS.items() for x in names)
        assert not set(BLOCKS[BLOCK_H]) & set(c.chain)
    # paging reference, hand-computed
    assert block_page(BLOCK_H, 1, 4) == ['K0', 'K1', 'K2', 'K3'] and block_page(BLOCK_H, 2, 4) == ['K4']
    assert block_page(BLOCK_H, 2, 3) == ['K3', 'K4'] and block_page(BLOCK_H, 3, 2) == ['K4']
    assert block_page(BLOCK_H, 1, 25) == BLOCKS[BLOCK_H] and block_page(BLOCK_H, 2, 5) == []
    assert block_page(BLOCK_H, 1, 0) == [] and block_page(101, 1, 25) == ['TA']
    assert block_request((101,)) == (101, True, 1, 25) and block_request((BLOCK_H, False)) == (BLOCK_H, False, 1, 99999)
    assert block_request((block_hash(BLOCK_H), True, 2, 3)) == (BLOCK_H, True, 2, 3)
    assert block_event_args('101') == (101,) and block_event_args('110:T:2:3') == (110, True, 2, 3)
    assert block_event_args('110:F:1:N') == (110, False, 1) and block_event_args('h110:T:1:N')[0] == block_hash(110)
    # batched balance reference, hand-computed: requests [a, b] -> 30 and [c] -> 5, nothing cached
    c0 = f.by_net[NET]
    assert bal_event_args(c0, 'YWZ:2') == ([c0.Y, c0.W, c0.Z], 2) and bal_event_args(c0, 'UZ') == ([c0.V2, c0.Z],)
    assert ref_balance_totals(['a', 'b', 'c'], [[['a', 'b'], 30], [['c'], 5]], {}) == (set([35]), None)
    # c served from the cache, which may hold 5 or 6 for it
    assert ref_balance_totals(['a', 'b', 'c'], [[['a', 'b'], 30]], {'c': set([5, 6])}) == (set([35, 36]), None)
    assert ref_balance_totals(['a', 'b'], [[['a'], 10]], {})[1] == 'value|address_neither_requested_nor_cached'
    assert ref_balance_totals(['a', 'b'], [[['a', 'b'], 30], [['b'], 20]], {})[1] == 'request|address_requested_twice'
    assert ref_balance_totals(['a'], [[['a', 'z'], 30]], {})[1] == 'request|address_that_was_not_asked_for'
    assert ref_balance_totals(['a'], [], {'a': set([0])}) == (set([0]), None)
    tr = lambda a, p: {'a': 10, 'b': 20, 'c': 5}[a]
    rr = [[['a', 'b'], 30], [['c'], 5]]
    assert classify_wrong_total(30, set([35]), ['a', 'b', 'c'], rr, {}, tr) == 'value|address_left_out_of_the_total'
    assert classify_wrong_total(45, set([35]), ['a', 'b', 'c'], rr, {}, tr) == 'value|address_counted_twice'
    assert classify_wrong_total(1, set([35]), ['a', 'b', 'c'], rr, {}, tr) == \
        'value|total_differs_from_provider_and_cached_answers'
    # the six addresses of the fixture are distinct and a provider's balances tell the addresses with funds apart
    assert len(set(_addr(c0, x) for x in ADDR)) == len(ADDR) == 6
    assert len(set(chain_balance(c0, _addr(c0, x)) for x in 'YWZ')) == 3
    assert len(batch_thorough_alphabet()) == len(set(json.dumps(e) for e in batch_thorough_alphabet()))
    assert len(FAMILIES['batch']) == len(set(json.dumps(e) for e in FAMILIES['batch']))
    # incomplete provider copies: the form table, the reference read-out and the coverage reference, hand-computed
    E.forms = {'TD': ['noval', 'full', 'nodate'], 'TA': 'noheight', 'TC': 'noval', 'TU': 'noval'}
    try:
        assert [tx_form(p, 'TD') for p in range(4)] == ['noval', 'full', 'nodate', 'full']
        assert tx_form(0, 'TA') == 'noheight' and tx_form(2, 'TB') == 'full'
        assert tx_form(0, 'TC') == 'full' and tx_form(0, 'TU') == 'full'        # coinbase / unconfirmed: as they are
        assert storable(1, 'TD') and not storable(0, 'TD') and not storable(2, 'TD') and not storable(0, 'TU')
        r0, r1, r2 = [ref_tx_summary(NET, 'TD', p) for p in range(3)]
        assert [i[2] for i in r0['ins']] == [0, 0] and [i[2] for i in r1['ins']] == [1500000000, 200000000]
        assert r0['date'] is not None and r2['date'] is None and r2['ins'] == r1['ins'] and r0['height'] == 103
        assert ref_tx_summary(NET, 'TA', 0)['height'] is None and ref_tx_summary(NET, 'TA', 0, 'full')['height'] == 101
        assert tx_diff(r0, r1) == ['ins', 'date'] and tx_diff(r2, r1) == ['date']
    finally:
        E.forms = {}
    assert ref_tx_summary(NET, 'TD', 0)['ins'][0][2] == 1500000000
    hh = {'a': 10, 'b': 11, 'c': 12, 'd': 13}
    assert ref_uncovered(['a', 'b', 'c', 'd'], hh, 13, set('abcd')) == ([], [])
    assert ref_uncovered(['a', 'b', 'c', 'd'], hh, 12, set('abc')) == ([], [])         # bookmark before d
    assert ref_uncovered(['a', 'b', 'c', 'd'], hh, 200, set('abc')) == ([], ['d'])     # newest one never held
    assert ref_uncovered(['a', 'b', 'c', 'd'], hh, 200, set('ad')) == (['b', 'c'], [])  # gap before a held one
    assert ref_uncovered(['a', 'b', 'c', 'd'], hh, 200, set('b')) == (['a'], ['c', 'd'])
    assert ref_uncovered(['a', 'b'], hh, 9, set()) == ([], []) and ref_uncovered([], hh, 200, set()) == ([], [])
    for tabs in (FORM_TABLES_QUICK, form_tables_thorough(), PAGE_FORM_TABLES):
        assert len(set(forms_tag(t) for t in tabs)) == len(tabs)
        assert all(f in FORMS for t in tabs for v in t.values() for f in ([v] if isinstance(v, str) else v))
    assert all(t in form_tables_thorough() for t in FORM_TABLES_QUICK)
    # fee value classes, hand-computed against the fee ranges of the network definitions
    assert FEE_BOUNDS['bitcoin'][:2] == (1000, 1000000) and FEE_BOUNDS['testnet'][:2] == (1000, 2000000)
    assert [fee_value(cl, 1, 3, NET) for cl in FEE_CLASSES] == \
        [21003, 2, 533, 999, 1000, 1001, 999999, 1000000, 1000001, 250001003, 21003]
    assert [fee_value('spread', 2, b, 'testnet') for b in (1, 5, 6)] == [500002001, 22005, 566]
    assert [fee_limited(v, NET) for v in (1, 999, 1000, 1001, 999999, 1000000, 1000001, 250000000)] == \
        [1000, 1000, 1000, 1001, 999999, 1000000, 1000000, 1000000]
    assert fee_limited(1500000, 'testnet') == 1500000 and fee_limited(2000001, 'testnet') == 2000000
    for net in NETS:
        for cl in FEE_CLASSES:
            for b in (1, 2, 3, 5, 10, 25):
                v = [fee_value(cl, p, b, net) for p in range(3)]
                inside = [FEE_BOUNDS[net][0] <= x <= FEE_BOUNDS[net][1] for x in v]
                eff = cl if cl != 'spread' else ('far' if b <= 1 else 'in' if b <= 5 else 'below')
                assert all(inside) == (eff in ('in', 'min', 'min+1', 'max-1', 'max')) and len(set(inside)) == 1
                assert len(set(v)) == (3 if eff in ('in', 'one', 'below', 'far') else 1)
    E.vals = {'estimatefee': ['below', 'far']}
    try:
        assert [val_class('estimatefee', p) for p in range(3)] == ['below', 'far', 'in'] and val_class('getbalance', 0) == 'in'
        assert ok_value('estimatefee', 1, (10,), NET) == 250001010
    finally:
        E.vals = {}
    assert ok_value('estimatefee', 1, (10,), NET) == 21010
    assert fee_event_args('3') == (3,) and fee_event_args('') == () and fee_event_args('low') == (5, 'low')
    assert fee_event_args('1:high') == (1, 'high')
    assert ref_fee_request(()) == (5, ('medium',)) and ref_fee_request((1,)) == (1, ('high',))
    assert ref_fee_request((6,)) == (6, ('low',)) and ref_fee_request((1, 'low')) == (None, ('low',))
    assert ref_fee_request((5, 'high')) == (None, ('high', 'medium')) and ref_fee_request((5, 'medium')) == (5, ('medium',))
    m = CacheModel()
    m.fee = {'medium': (1000, 600.0, False, 533), 'low': (21010, 600.0, False, 21010)}
    assert judge_cached_fee(('medium',), 1000, m, 10.0) == ('cache', None)
    assert judge_cached_fee(('medium',), 533, m, 10.0)[1] == \
        'cache|serves_provider_fee_unlimited_where_the_call_returned_it_limited_to_the_fee_range'
    assert judge_cached_fee(('medium',), 1000, m, 600.0)[1] == 'cache|serves_expired_fee'
    assert judge_cached_fee(('medium',), 21010, m, 10.0)[1] == 'cache|serves_fee_stored_for_another_confirmation_class'
    assert judge_cached_fee(('high',), 21010, m, 10.0)[1] == 'cache|serves_fee_stored_for_another_confirmation_class'
    assert judge_cached_fee(('high',), 7, m, 10.0)[1] == 'cache|serves_fee_never_stored'
    assert judge_cached_fee(('medium',), 7, m, 10.0)[1] == 'cache|fee_differs_from_stored'
    assert judge_cached_fee(('high', 'medium'), 1000, m, 10.0) == ('cache', None)
    tt = val_tables_thorough()
    assert len(set(json.dumps(t) for t in tt)) == len(tt) and all(t in tt for t in VAL_TABLES_QUICK)
    assert all(cl in FEE_CLASSES for _, t in tt for cl in ([t] if isinstance(t, str) else t))
    assert len(prio_vectors(3)) == 13 and len(prio_vectors(4)) == 75
    assert len(assignments(4, MAIN)) == 6 ** 4 and assignments(3, MAIN)[0] == ['ok'] * 3


def Q(method, key, health):
    return ['Q', method, key, health]


FAMILIES = {
    'tx': [Q('gettransaction', 'A', 'H'), Q('gettransaction', 'A', 'F'), Q('gettransaction', 'A', 'D'),
           Q('gettransaction', 'A', 'M'), Q('gettransaction', 'B', 'H'), Q('gettransaction', 'U', 'H'),
           Q('gettransaction', 'C', 'F'), Q('gettransaction', 'D', 'D'), Q('getrawtransaction', 'A', 'H'),
           Q('getrawtransaction', 'A', 'D'), Q('isspent', 'A0', 'H'), Q('isspent', 'A0', 'D'),
           Q('getutxos', 'Y', 'F'), ['R', 'H'], ['R', 'D'], ['T', 61]],
    'vars': [Q('estimatefee', '3', 'H'), Q('estimatefee', '3', 'F'), Q('estimatefee', '3', 'D'),
             Q('estimatefee', '5', 'E'), Q('estimatefee', '10', 'H'), Q('estimatefee', '10', 'D'),
             Q('estimatefee', '1', 'F'), Q('blockcount', '', 'H'), Q('blockcount', '', 'F'),
             Q('blockcount', '', 'D'), ['R', 'H'], ['R', 'F'], ['R', 'D'], ['T', 2], ['T', 61], ['T', 601]],
    'block': [Q('getblock', '101', 'H'), Q('getblock', '101', 'F'), Q('getblock', '101', 'D'),
              Q('getblock', '102', 'H'), Q('getblock', '100', 'F'), Q('gettransaction', 'A', 'H'),
              Q('gettransaction', 'A', 'D'), Q('gettransaction', 'C', 'D'), Q('getrawtransaction', 'B', 'D'),
              ['R', 'H'], ['T', 61]],
    'addr': [Q('gettransactions', 'X20', 'H'), Q('gettransactions', 'X20', 'F'), Q('gettransactions', 'X20', 'D'),
             Q('gettransactions', 'X2', 'H'), Q('gettransactions', 'X2', 'D'), Q('gettransactions', 'X3', 'F'),
             Q('gettransactions', 'Y20', 'H'), Q('getutxos', 'Y', 'H'), Q('getutxos', 'Y', 'D'),
             Q('getutxos', 'W', 'F'), Q('getbalance', 'Y', 'H'), Q('getbalance', 'Y', 'F'),
             Q('getbalance', 'Y', 'D'), Q('gettransaction', 'A', 'D'), Q('isspent', 'A0', 'D'),
             ['R', 'H'], ['T', 61]],
}


REDUCED = {
    'tx': [Q('gettransaction', 'A', 'M'), Q('gettransaction', 'A', 'F'), Q('getutxos', 'Y', 'F'),
           Q('isspent', 'A0', 'D'), Q('getrawtransaction', 'A', 'D'), ['T', 61]],
    'vars': [Q('estimatefee', '3', 'F'), Q('estimatefee', '3', 'D'), Q('blockcount', '', 'F'),
             ['R', 'D'], ['T', 61], ['T', 601]],
    'block': [Q('getblock', '101', 'F'), Q('getblock', '101', 'D'), Q('gettransaction', 'A', 'D'),
              Q('getblock', '102', 'H'), ['R', 'H'], ['T', 61]],
    'addr': [Q('gettransactions', 'X2', 'H'), Q('gettransactions', 'Y20', 'F'), Q('gettransactions', 'X20', 'H'),
             Q('gettransactions', 'X20', 'D'), Q('getutxos', 'Y', 'H'), Q('getbalance', 'Y', 'D')],
    'addr_quick': [Q('gettransactions', 'X2', 'H'), Q('gettransactions', 'Y20', 'F'), Q('gettransactions', 'X20', 'H'),
                   Q('gettransactions', 'X20', 'D'), Q('getutxos', 'Y', 'H')],
}


# one address with two unspent outputs (Y: TA:0 and TD:0), block count constant unless a T event is present:
# every order of "page through the utxos", "whole utxo list", "history", "balance"
FAMILIES['bal'] = [Q('gettransactions', 'Y20', 'H'), Q('getutxos', 'Y1', 'H'), Q('getutxos', 'Y', 'H'),
                   Q('getbalance', 'Y', 'H'), Q('getutxos', 'Y', 'F'), Q('getbalance', 'Y', 'F'),
                   Q('gettransactions', 'Y20', 'F'), Q('getbalance', 'Y', 'D'), Q('gettransactions', 'Y1', 'H'),
                   ['R', 'H'], ['T', 61]]
REDUCED['bal'] = FAMILIES['bal'][:4]


# one block with five transactions, requested through every window (parse_transactions, page, limit) that cuts it
# differently: the cache is filled through one window and read through another, so the requested page can be
# absent, partly or completely in the cache; last pages, the exactly filled page, the default window, the txid
# list, limit 0, a page beyond the end, the block named by hash
def _bw(window, blockid='110'):
    return '%s:%s' % (blockid, window)


PAGE_WINDOWS = ['T:1:N', 'T:1:2', 'T:2:2', 'T:3:2', 'T:1:3', 'T:2:3', 'T:1:4', 'T:2:4', 'T:1:5', 'F:1:N',
                'F:2:2', 'T:1:0', 'T:2:5']
FAMILIES['page'] = ([Q('getblock', _bw(w), 'H') for w in PAGE_WINDOWS] +
                    [Q('getblock', _bw('T:1:N', 'h110'), 'H')] +
                    [Q('getblock', _bw(w), 'F') for w in ('T:1:N', 'T:2:3', 'T:1:4', 'F:1:N')] +
                    [Q('getblock', _bw(w), 'D') for w in ('T:1:N', 'T:2:3', 'T:1:4', 'T:2:4')] +
                    [Q('gettransaction', 'K', 'H'), Q('gettransaction', 'L', 'D'), ['R', 'H']])
REDUCED['page'] = [Q('getblock', _bw(w), 'H') for w in ('T:1:2', 'T:2:2', 'T:3:2', 'T:1:4', 'T:1:N', 'F:1:N')]


# balance queries over a LIST of addresses: every shape (number of addresses n, addresses_per_request r) that cuts
# the list differently - one request, n requests of one address, a last request of exactly one address
# (n % r == 1), r == n, r > n, the documented default of five per request with six addresses - in several address
# orders, before / after the cache learnt an address through its history, its utxo list or a balance query of its
# own, with the first or all providers down, reopened, after the block count expired.  After every query the
# returned total is compared with the provider answers for exactly the requests that were made plus the cached
# balances of the addresses that were not requested, and the cached record of every address is inspected.
def B(key, health='H'):
    return Q('getbalance', key, health)


BATCH_PREP = [Q('gettransactions', 'Y20', 'H'), Q('gettransactions', 'Z20', 'H'), Q('getutxos', 'Y', 'H')]
BATCH_FAULTS = [B('YWZ:2', 'F'), B('Z', 'F'), B('YWZ:2', 'D'), B('Z', 'D'), ['R', 'H'], ['T', 61]]
FAMILIES['batch'] = ([B(k) for k in ('YWZ:2', 'ZWY:2', 'WZY:2', 'YWZ:1', 'YWZ', 'YWZ:3', 'YW:1', 'ZY', 'YW:2',
                                     'Y', 'W', 'Z', 'Z:1', 'XYWZ:3', 'XYWZVU')] + BATCH_PREP + BATCH_FAULTS)
REDUCED['batch'] = [Q('gettransactions', 'Z20', 'H'), B('YWZ:2'), B('Z'), B('ZWY:1'), Q('getutxos', 'Y', 'H'),
                    ['R', 'H']]


def batch_thorough_alphabet():
    """Every order of three and of two of the addresses Y, W, Z x addresses_per_request {1, 2, not passed}, the
    single addresses, r == n, four and six addresses, and the other events of the quick alphabet."""
    keys = []
    for n in (3, 2):
        for perm in itertools.permutations('YWZ', n):
            for r in (':1', ':2', ''):
                keys.append(''.join(perm) + r)
    keys += ['YWZ:3', 'Y', 'W', 'Z', 'Z:1', 'X', 'XYWZ:3', 'YWZX:2', 'ZXWY:3', 'XYWZVU', 'UVZWYX', 'XYWZVU:5',
             'XYWZV', 'XYWZVU:4']
    return ([B(k) for k in keys] + BATCH_PREP + [Q('gettransactions', 'W20', 'H'), Q('getutxos', 'Z', 'H'),
                                                 Q('gettransactions', 'Y1', 'H'), B('ZWY:1', 'F')] + BATCH_FAULTS)


# answers of a responding provider that the cache refuses to store: a provider's copy of a confirmed transaction
# lacks the input values, the block time or the block height (FORMS).  The query succeeds, the cache stays partly
# filled, and every later query of the history must still return what a responding provider returns (or fail) -
# never the cached part alone.  One forms table per history: which transaction of the chain TC < TA < TB < TD is
# incomplete (the newest / the oldest / a middle one of an address history, all of them) and from which provider
# (all, or only the first one, so that the event's provider health decides whether the complete copy arrives).
INCOMPLETE_EVENTS = [Q('gettransactions', 'Y20', 'H'), Q('gettransactions', 'Y20', 'F'),
                     Q('gettransactions', 'Y20', 'D'), Q('gettransactions', 'X20', 'H'),
                     Q('gettransactions', 'X20', 'D'), Q('gettransactions', 'X2', 'H'), Q('getbalance', 'Y', 'H'),
                     Q('getbalance', 'Y', 'D'), Q('getutxos', 'Y', 'H'), Q('gettransaction', 'D', 'H'),
                     Q('gettransaction', 'D', 'D'), Q('getblock', '103', 'H'), ['R', 'H'], ['T', 61]]
INCOMPLETE_REDUCED = [Q('gettransactions', 'Y20', 'H'), Q('gettransactions', 'Y20', 'D'), Q('getbalance', 'Y', 'H'),
                      Q('gettransactions', 'X20', 'H'), ['T', 61]]
FORM_TABLES_QUICK = [{'TD': 'noval'}, {'TA': 'noval'}, {'TD': 'nodate'}, {'TD': 'noheight'},
                     {'TD': ['noval', 'full', 'full']}, {'TA': 'noval', 'TB': 'noval', 'TD': 'noval'}]
PAGE_FORM_TABLES = [{'K2': 'noval'}, {'K4': 'noval'}, {'K0': 'full', 'K1': 'nodate', 'K3': 'noheight'}]


def form_tables_thorough():
    """Every single transaction of TA, TB, TD in every incomplete form, from all providers / from the first provider
    only / from all but the first; every pair of them without input values; all three in one form."""
    tabs = []
    for form in FORMS[1:]:
        for name in ('TA', 'TB', 'TD'):
            tabs.append({name: form})
    for name in ('TA', 'TB', 'TD'):
        tabs.append({name: ['noval', 'full', 'full']})
        tabs.append({name: ['full', 'noval', 'noval']})
    tabs.append({'TD': ['nodate', 'noval', 'full']})
    for a, b in (('TA', 'TB'), ('TA', 'TD'), ('TB', 'TD')):
        tabs.append({a: 'noval', b: 'noval'})
    for form in FORMS[1:]:
        tabs.append({'TA': form, 'TB': form, 'TD': form})
    return tabs


# answers of a responding provider that the service does not hand through as they are: a fee estimate outside the
# fee range of the network definition (below the lowest / above the highest fee per kB, exactly on and next to the
# bounds) is limited to the range, a falsy one replaced by the network's default fee, before the call returns and
# stores it.  One value table per history: the value class of the providers' estimates (all providers the same
# class, or one class per provider so that the event's provider health decides whose figure arrives).  Events: the
# estimate for every fee class (1 / 3, 5, default / 10, 25 blocks, by priority) under every provider health, reopen,
# the clock moved within and past the 600 s the estimate is kept.  Every call without a provider query must return
# exactly what the call that stored the estimate returned.
def F(key, health='H'):
    return Q('estimatefee', key, health)


FEE_EVENTS = [F('1'), F('3'), F('10'), F(''), F('low'), F('3', 'F'), F('10', 'F'), F('3', 'D'), F('3', 'E'),
              F('3', 'Z'), ['R', 'H'], ['T', 61], ['T', 601]]
FEE_EVENTS_THOROUGH = FEE_EVENTS + [F('5'), F('25'), F('high'), F('1:low'), F('medium'), F('1', 'F'), F('10', 'D'),
                                    F('3', 'N'), F('10', 'Z'), ['R', 'D']]
FEE_REDUCED = [F('3'), F('3', 'F'), F('10'), F('3', 'D'), ['R', 'H'], ['T', 601]]
VAL_TABLES_QUICK = [(NET, 'below'), (NET, 'min-1'), (NET, 'max+1'), (NET, 'far'), (NET, 'spread'),
                    (NET, ['below', 'in', 'far']), (NET, ['far', 'below', 'in']),
                    ('testnet', 'below'), ('testnet', 'far'), ('testnet', ['in', 'far', 'below'])]


def val_tables_thorough():
    """Every value class from all providers on both networks; every class from the first provider only (the others
    in range) and from all but the first; three mixed tables."""
    tabs = []
    for net in NETS:
        for cls in FEE_CLASSES:
            tabs.append((net, cls))
    for cls in FEE_CLASSES[1:]:
        tabs.append((NET, [cls, 'in', 'in']))
        tabs.append((NET, ['in', cls, cls]))
    for net in NETS:
        for mix in (['below', 'in', 'far'], ['far', 'below', 'in'], ['in', 'far', 'below']):
            tabs.append((net, mix))
    return tabs


def histories(alphabet, length):
    return [list(h) for h in itertools.product(alphabet, repeat=length)]


def _ranks_for(order):
    """Tie-break numbers that force this order among providers of equal priority."""
    k = len(order)
    r = [0.0] * k
    for pos, p in enumerate(order):
        r[p] = round((k - pos) / (k + 1.0), 4)
    return r


ORDERS = {1: [[0]], 2: [[0, 1], [1, 0]], 3: [[0, 1, 2], [2, 0, 1]], 4: [[0, 1, 2, 3], [2, 0, 3, 1]],
          5: [[0, 1, 2, 3, 4], [3, 1, 4, 0, 2]]}


def _seed_order(k, seed):
    """A forced provider order chosen by VERIF_SEED (filler for the sub-spaces that use one order only)."""
    perms = sorted(itertools.permutations(range(k)))
    return list(perms[(seed * 7919 + 3 * k) % len(perms)])


def _chunks(lst, n):
    return [lst[i:i + n] for i in range(0, len(lst), n)]


def _want(ctx, name):
    return not getattr(ctx, 'only', None) or name in ctx.only


def run(ctx):
    q = ctx.quick
    install()
    bounds = {}
    so = {k: _seed_order(k, ctx.seed) for k in range(1, KMAX + 1)}
    ctx.note('seed_selected_orders', so)
    provcfgs = [{'min_providers': 1, 'max_providers': 1}, {'min_providers': 1, 'max_providers': 2},
                {'min_providers': 2, 'max_providers': 2}]
    # ------------------------------------------------------------------ failover, cache disabled
    cases = []
    nfo = 0
    for k in (1, 2, 3, 4):
        for order in ORDERS[k]:
            for pc in provcfgs:
                for maxe in (1, 2, 3, 4, 5):
                    cfg = dict(pc, max_errors=maxe)
                    full = (not q) or k <= 3 or (pc['max_providers'] == 1 and maxe == 4 and order == ORDERS[k][0])
                    if q and k == 4 and not full and (order != ORDERS[k][-1] or maxe in (3, 5)):
                        continue        # (with at most 2 failing providers max_errors 3, 4 and 5 are the same)
                    if q and k == 3 and order != ORDERS[k][0] and maxe not in (2, 4):
                        continue
                    al = assignments(k, MAIN) if full else assignments(k, MAIN, max_faults=2)
                    for ch in _chunks(al, 108):
                        cases.append({'k': k, 'prios': [1] * k, 'ranks': _ranks_for(order), 'cfg': cfg,
                                      'cache': 'off', 'methods': METHODS, 'assigns': ch})
                        nfo += len(ch) * len(METHODS)
    bounds['failover_cache_disabled'] = (
        'k=1..%s complete over %s (6^k), %s; x 12 methods x 2 forced orders x (min,max)_providers in '
        '{(1,1),(1,2),(2,2)} x max_errors 1..5' % ('4' if not q else '3', MAIN, 'k=4 complete' if not q else
                                                   'k=3 second order at max_errors {2,4} only; k=4 up to 2 faulty providers, one forced order, max_errors {1,2,4} (complete for (1,1), max_errors 4)'))
    # five providers, default error limit 4: the fifth is only reached when fewer than 4 providers failed before it
    for order in ORDERS[5]:
        cases.append({'k': 5, 'prios': [1] * 5, 'ranks': _ranks_for(order), 'cfg': {}, 'cache': 'off',
                      'methods': METHODS, 'assigns': assignments(5, ['ok', 'cerr', 'false'] if q else MAIN[:4])})
    bounds['failover_five_providers'] = 'k=5, default settings (max_errors=4), complete over %s, 2 forced orders' % (
        ['ok', 'cerr', 'false'] if q else MAIN[:4])
    groups = [('fo', cases)]
    cases = []
    groups.append(('fo_testnet', cases))
    # ------------------------------------------------------------------ second network (has a default fee)
    for k in (1, 2, 3):
        for maxe in (1, 2, 4):
            cases.append({'k': k, 'prios': [1] * k, 'ranks': _ranks_for(so[k]), 'net': 'testnet',
                          'cfg': {'max_errors': maxe}, 'cache': 'off',
                          'methods': ['estimatefee', 'blockcount', 'getbalance', 'isspent', 'gettransaction'],
                          'assigns': assignments(k, MAIN)})
    bounds['failover_testnet'] = 'k=1..3 complete, max_errors {1,2,4}, 5 methods'
    # ------------------------------------------------------------------ further outcome classes
    cases = []
    groups.append(('fo_special', cases))
    kk = (2, 3) if q else (2, 3, 4)
    for k in kk:
        for pc in provcfgs[:2]:
            for maxe in (1, 2, 4):
                for ch in _chunks(assignments(k, SPECIAL), 125):
                    cases.append({'k': k, 'prios': [1] * k, 'ranks': _ranks_for(so[k]),
                                  'cfg': dict(pc, max_errors=maxe), 'cache': 'off', 'methods': METHODS,
                                  'assigns': ch})
    bounds['failover_special_classes'] = 'k in %s complete over %s x 12 methods x max_providers {1,2} x max_errors {1,2,4}' % (
        list(kk), SPECIAL)
    # unusable provider definitions (no url / api key needed): provider <bad> of 3 is skipped silently
    for setname in SKIPSETS:
        bad = int(setname[-1])
        cls = 'nourl' if 'nourl' in setname else 'apikey'
        al = []
        for a in assignments(2, MAIN):
            a = list(a)
            a.insert(bad, cls)
            al.append(a)
        for maxe in (1, 2, 4):
            cases.append({'k': 3, 'prios': [1, 1, 1], 'set': setname, 'ranks': _ranks_for([0, 1, 2]),
                          'cfg': {'max_errors': maxe}, 'cache': 'off', 'methods': METHODS, 'assigns': al})
    bounds['failover_unusable_definitions'] = '6 provider sets (no url / api-key-needed at position 0,1,2) x 6^2 x 12 methods x max_errors {1,2,4}'
    # ------------------------------------------------------------------ cold sqlite cache (fresh per call)
    cases = []
    groups.append(('fo_cold', cases))
    cold_methods = [m for m in METHODS if m not in ('sendrawtransaction', 'mempool', 'getinfo')]
    for k in (1, 2, 3, 4):
        for pc in provcfgs:
            for maxe in (1, 2, 4):
                default = pc['max_providers'] == 1 and maxe == 4
                if q:
                    if not (default or (pc['min_providers'] == 1 and pc['max_providers'] == 2 and maxe == 2) or
                            (pc['min_providers'] == 2 and maxe == 4)):
                        continue
                    if k == 4 or (k == 3 and not default):
                        continue
                    al = assignments(k, MAIN) if k <= 2 else assignments(k, MAIN, max_faults=1)
                    if pc['min_providers'] == 2:
                        al = assignments(k, MAIN, max_faults=1)
                else:
                    if k == 3 and not (default or (pc['min_providers'] == 1 and pc['max_providers'] == 2 and maxe == 2) or
                                       (pc['min_providers'] == 2 and maxe == 4)):
                        continue
                    if k == 4 and not default:
                        continue
                    al = assignments(k, MAIN) if k <= 3 else assignments(k, MAIN, max_faults=2)
                for ch in _chunks(al, 24):
                    cases.append({'k': k, 'prios': [1] * k, 'ranks': _ranks_for(so[k]),
                                  'cfg': dict(pc, max_errors=maxe), 'cache': 'cold', 'methods': cold_methods,
                                  'assigns': ch})
    bounds['failover_cache_cold'] = ('fresh sqlite cache per call, the 9 methods that touch the cache; %s' % (
        'settings (1,1,4),(1,2,2): k<=2 complete; (1,1,4): k=3 up to 1 faulty provider; (2,2,4): k<=2 up to 1 faulty provider' if q else
        'k<=2 complete x 3 provider settings x max_errors {1,2,4}; k=3 complete for (1,1,4),(1,2,2),(2,2,4); '
        'k=4 up to 2 faulty providers for (1,1,4)'))
    for name, cs in groups:
        if _want(ctx, name):
            ctx.pmap(name, cs, chunk=1)
    # ------------------------------------------------------------------ provider order
    cases = []
    for k in (1, 2, 3, 4):
        if q and k == 4:
            vecs = [v for v in prio_vectors(4) if len(set(v)) <= 2]
        else:
            vecs = prio_vectors(k)
        for prios in vecs:
            for perm in itertools.permutations(range(k)):
                cases.append({'k': k, 'prios': prios, 'ranks': _ranks_for(list(perm)), 'cfg': {'max_errors': 4},
                              'cache': 'off', 'methods': ['getbalance', 'blockcount', 'mempool'],
                              'assigns': assignments(k, ['ok', 'cerr'])})
        # ignore_priority: random.shuffle decides; every permutation, under tied and under distinct priorities
        for prios in ([1] * k, list(range(1, k + 1))):
            for perm in itertools.permutations(range(k)):
                for pc in provcfgs[:2]:
                    cases.append({'k': k, 'prios': prios, 'ranks': _ranks_for(list(range(k))), 'perm': list(perm),
                                  'cfg': dict(pc, max_errors=4, ignore_priority=True), 'cache': 'off',
                                  'methods': ['getbalance', 'blockcount', 'mempool'],
                                  'assigns': assignments(k, ['ok', 'cerr'])})
    bounds['provider_order'] = ('every weak ordering of priorities (k<=%s; k=4: %s) x every tie-break permutation '
                                '(random.random forced) and every random.shuffle permutation with ignore_priority, '
                                'x {ok,ClientError}^k x 3 methods' % ('3' if q else '4', 'at most 2 priority levels' if q else 'all 75'))
    if _want(ctx, 'order'):
        ctx.pmap('order', cases)
    # ------------------------------------------------------------------ chunked getbalance
    cases = []
    alph = ['ok', 'cerr', 'exc', 'false', 'empty']
    for k in (2, 3):
        a1 = assignments(k, alph if k == 2 else ['ok', 'cerr', 'false'])
        seqs = [[[x[i], y[i]] for i in range(k)] for x in a1 for y in a1]
        for pc in provcfgs[:2]:
            for maxe in (1, 2, 4):
                for ch in _chunks(seqs, 125):
                    cases.append({'k': k, 'cfg': dict(pc, max_errors=maxe), 'ranks': _ranks_for(so[k]),
                                  'seqs': ch})
    bounds['getbalance_two_chunks'] = 'per-query outcomes: k=2 over %s^4, k=3 over {ok,cerr,false}^6, max_providers {1,2}, max_errors {1,2,4}' % alph
    if _want(ctx, 'multi'):
        ctx.pmap('multi', cases)
    # ------------------------------------------------------------------ cache histories
    cases = []
    hb = {}
    for fam, alphabet in FAMILIES.items():
        L = 2 if q else 3
        plan = [(NET, {}, L)]
        if not q:
            plan += [(NET, {'max_errors': 3}, 2), (NET, {'min_providers': 2}, 2)]
        if fam == 'vars':
            plan += [('testnet', {'max_errors': 3}, 2)]
        plan += [(NET, {'max_errors': 4}, 3 if q else 4)]
        if fam == 'bal':
            plan = [(NET, {}, 2 if q else 3), (NET, {'max_errors': 4}, 4 if q else 5)]
            if not q:
                plan.append((NET, {'max_errors': 3}, 3))
        if fam == 'page':
            plan = [(NET, {}, 2), (NET, {'max_errors': 4}, 3 if q else 4)]
            if not q:
                plan += [(NET, {'max_errors': 2}, 3), (NET, {'min_providers': 2}, 2), ('testnet', {'max_errors': 4}, 2)]
        if fam == 'batch':
            plan = [(NET, {}, 2), (NET, {'max_errors': 4}, 3 if q else 4)]
            if not q:
                plan += [(NET, {'max_errors': 3}, 2), (NET, {'min_providers': 2}, 2)]
        for net, cfg, ln in plan:
            red = cfg == {'max_errors': 4} or (q and net != NET)
            alpha = REDUCED[fam] if red else alphabet
            if fam == 'batch' and not q and cfg == {}:
                alpha = batch_thorough_alphabet()
            if fam == 'page' and ln >= 3 and not red:
                alpha = alphabet[:18]       # the 14 healthy windows and the 4 with the first provider down
            if fam == 'addr' and (q or ln >= 3):
                alpha = REDUCED['addr_quick'] if red else alphabet[:12]
            hs = histories(alpha, ln)
            for ch in _chunks(hs, 24):
                cases.append({'family': fam, 'net': net, 'cfg': cfg, 'hists': ch})
            hb['%s/%s/%s' % (fam, net, json.dumps(cfg, sort_keys=True))] = '%d events ^ %d = %d histories' % (
                len(alpha), ln, len(hs))
    # the same histories over a cache database another network has used before (blocks at the same heights, block
    # count, fee estimates): everything that is keyed by something two networks can share
    for fam in ('block', 'page', 'vars'):
        for net in NETS:
            alpha = REDUCED[fam] if (q or net != NET) else FAMILIES[fam]
            if fam == 'page' and alpha is REDUCED[fam]:
                # header-only requests (limit 0) need no cached transaction to be answered from the cache
                alpha = alpha + [Q('getblock', _bw('T:1:0'), 'H'), Q('getblock', _bw('T:1:0'), 'D'),
                                 Q('getblock', _bw('F:1:0'), 'H')]
            hs = histories(alpha, 2)
            for ch in _chunks(hs, 24):
                cases.append({'family': fam, 'net': net, 'cfg': {}, 'hists': ch, 'foreign': True})
            hb['%s/%s/after_other_network' % (fam, net)] = '%d events ^ 2 = %d histories' % (len(alpha), len(hs))
    bounds['cache_histories'] = hb
    bounds['batched_balance_queries'] = (
        'family batch: getbalance(list, addresses_per_request) shapes %s; thorough: every order of 3 and of 2 of '
        '{Y,W,Z} x addresses_per_request {1,2,default}, 4/5/6 addresses with 2,3,4,5,default per request (%d events)'
        % ([e[2] for e in FAMILIES['batch'] if e[0] == 'Q' and e[1] == 'getbalance' and e[3] == 'H'],
           len(batch_thorough_alphabet())))
    bounds['cache_history_events'] = FAMILIES
    bounds['cache_history_events_reduced'] = REDUCED
    if _want(ctx, 'hist'):
        ctx.pmap('hist', cases, chunk=1)
    # ------------------------------------------------------------------ provider answers the cache refuses to store
    cases = []
    ib = {}
    tabs = FORM_TABLES_QUICK if q else form_tables_thorough()
    plan = [('incomplete', t, {}, INCOMPLETE_EVENTS, 2) for t in tabs]
    deep = [FORM_TABLES_QUICK[0], FORM_TABLES_QUICK[4]]     # the newest transaction, from all / from the first provider
    plan += [('incomplete', t, {'max_errors': 4}, INCOMPLETE_REDUCED, 3 if q else 4)
             for t in (deep[:1] if q else deep + FORM_TABLES_QUICK[5:])]
    if not q:
        plan += [('incomplete', t, {}, INCOMPLETE_EVENTS, 3) for t in deep]
        plan += [('incomplete', t, {'max_errors': 2}, INCOMPLETE_EVENTS, 2) for t in FORM_TABLES_QUICK]
        plan += [('incomplete', t, {'min_providers': 2}, INCOMPLETE_EVENTS, 2) for t in FORM_TABLES_QUICK[:2]]
    # the request windows into the five-transaction block when one transaction of the block cannot be cached
    plan += [('page', t, {}, REDUCED['page'] if q else FAMILIES['page'], 2) for t in PAGE_FORM_TABLES]
    for fam, tab, cfg, alpha, ln in plan:
        hs = histories(alpha, ln)
        for ch in _chunks(hs, 24):
            cases.append({'family': fam, 'net': NET, 'cfg': cfg, 'forms': tab, 'hists': ch})
        ib['%s/%s/%s' % (fam, forms_tag(tab), json.dumps(cfg, sort_keys=True))] = '%d events ^ %d = %d histories' % (
            len(alpha), ln, len(hs))
    bounds['incomplete_provider_answers'] = {
        'forms': list(FORMS), 'form_tables': [forms_tag(t) for t in tabs], 'histories': ib,
        'events': INCOMPLETE_EVENTS, 'events_reduced': INCOMPLETE_REDUCED}
    if _want(ctx, 'incomplete'):
        ctx.pmap('incomplete', cases, chunk=1)
    # ------------------------------------------------------------------ provider answers the service limits / replaces
    cases = []
    vb = {}
    tabs = VAL_TABLES_QUICK if q else val_tables_thorough()
    events = FEE_EVENTS if q else FEE_EVENTS_THOROUGH
    # (thorough: the wide event alphabet for one class from all providers on bitcoin, the quick tables and the mixed
    # tables; the quick alphabet for the other tables)
    wide = [(net, t) for net, t in tabs if (net == NET and isinstance(t, str)) or (net, t) in VAL_TABLES_QUICK or
            (not isinstance(t, str) and len(set(t)) == 3)]
    plan = [(net, t, {}, events if (net, t) in wide else FEE_EVENTS, 2) for net, t in tabs]
    deep = [VAL_TABLES_QUICK[4], VAL_TABLES_QUICK[5]]       # spread; below / in range / far by provider
    plan += [(net, t, {'max_errors': 4}, FEE_REDUCED, 3) for net, t in deep]
    if not q:
        plan += [(net, t, {'max_errors': 4}, FEE_EVENTS, 3) for net, t in deep]
        plan += [(net, t, {'max_errors': 2}, FEE_EVENTS, 2) for net, t in VAL_TABLES_QUICK]
        plan += [(net, t, {'min_providers': 2}, FEE_EVENTS, 2) for net, t in deep]
    for net, tab, cfg, alpha, ln in plan:
        hs = histories(alpha, ln)
        for ch in _chunks(hs, 48):
            cases.append({'family': 'fee', 'net': net, 'cfg': cfg, 'vals': {'estimatefee': tab}, 'hists': ch})
        vb['%s/%s/%s' % (net, vals_tag({'estimatefee': tab}), json.dumps(cfg, sort_keys=True))] = \
            '%d events ^ %d = %d histories' % (len(alpha), ln, len(hs))
    bounds['provider_values_limited_by_the_service'] = {
        'fee_bounds': FEE_BOUNDS, 'value_classes': list(FEE_CLASSES),
        'value_tables': ['%s:%s' % (net, vals_tag({'estimatefee': t})) for net, t in tabs], 'histories': vb,
        'events': events, 'events_reduced': FEE_REDUCED}
    if _want(ctx, 'values'):
        ctx.pmap('values', cases, chunk=1)
    # the same value classes under every failure pattern of the providers (one call, cache disabled / cold)
    cases = []
    for net in NETS:
        for cls in (FEE_CLASSES if not q else ('below', 'min-1', 'max+1', 'far')):
            for k in (1, 2, 3):
                for cache in ('off', 'cold'):
                    if cache == 'cold' and (k == 3 or (q and net != NET)):
                        continue
                    for key in ('A', 'B'):
                        if key == 'B' and (q or cache == 'cold'):
                            continue
                        cases.append({'k': k, 'prios': [1] * k, 'ranks': _ranks_for(so[k]), 'net': net, 'key': key,
                                      'cfg': {'max_errors': 4 if k < 3 else 2}, 'cache': cache,
                                      'vals': {'estimatefee': cls}, 'methods': ['estimatefee'],
                                      'assigns': assignments(k, MAIN)})
    bounds['provider_values_failover'] = (
        'estimatefee, value classes %s x networks %s x k=1..3 complete over %s, cache disabled (k=3: max_errors 2) and '
        'cold (k<=2%s)' % (list(FEE_CLASSES) if not q else ['below', 'min-1', 'max+1', 'far'], list(NETS), MAIN,
                          ', bitcoin only' if q else ''))
    if _want(ctx, 'values_fo'):
        ctx.pmap('values_fo', cases, chunk=1)
    if _want(ctx, 'ctor'):
        ctx.pmap('ctor', [{'min_providers': 1, 'max_providers': None}, {'min_providers': 2, 'max_providers': 1},
                           {'min_providers': 2, 'max_providers': None}, {'min_providers': 1, 'max_providers': 1}])
    ctx.note('bounds', bounds)

