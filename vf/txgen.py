"""Transaction specs: one JSON-able description -> (a) a library Transaction built through the public
API, (b) the reference view of what is being spent (scriptPubKey, script code, amount per input).
Shared by C01 and C02."""
import hashlib

from vf.ref import secp, codec, addr as raddr

# input kinds: name -> (library script_type, library witness_type, compressed, multisig)
KINDS = {
    'p2pkh': ('sig_pubkey', 'legacy', True, False),
    'p2pkh_u': ('sig_pubkey', 'legacy', False, False),
    'p2pk': ('signature', 'legacy', True, False),
    'p2pk_u': ('signature', 'legacy', False, False),
    'p2sh_ms': ('p2sh_multisig', 'legacy', True, True),
    'p2wpkh': ('sig_pubkey', 'segwit', True, False),
    'p2wsh_ms': ('p2sh_multisig', 'segwit', True, True),
    'p2sh_p2wpkh': ('sig_pubkey', 'p2sh-segwit', True, False),
    'p2sh_p2wsh_ms': ('p2sh_multisig', 'p2sh-segwit', True, True),
}
KIND_NAMES = list(KINDS)
OUT_KINDS = ['p2pkh', 'p2sh', 'p2wpkh', 'p2wsh', 'p2tr', 'nulldata', 'nonstd']


def scalar(seed, i):
    """Deterministic private scalar in [1, n-1] from (seed, index)."""
    return int.from_bytes(hashlib.sha256(b'vf-key|%d|%d' % (seed, i)).digest(), 'big') % (secp.N - 1) + 1


def prev_txid(seed, i):
    return hashlib.sha256(b'vf-txid|%d|%d' % (seed, i)).hexdigest()


def input_ref(inp):
    """Reference view of an input spec: dict(pubs, spk, script_code, amount, sigversion, script_sig_prefix)."""
    kind = inp['kind']
    st, wt, comp, ms = KINDS[kind]
    pubs = [secp.ser(secp.pub(d), comp) for d in inp['keys']]
    if ms:
        redeem = raddr.multisig_script(inp['m'], pubs)
        sc = redeem
        if wt == 'legacy':
            spk = raddr.spk_p2sh(codec.hash160(redeem))
        elif wt == 'segwit':
            spk = raddr.spk_witness(0, codec.sha256(redeem))
        else:
            spk = raddr.spk_p2sh(codec.hash160(raddr.spk_witness(0, codec.sha256(redeem))))
    elif kind in ('p2pk', 'p2pk_u'):
        spk = raddr.spk_p2pk(pubs[0])
        sc = spk
    else:
        h = codec.hash160(pubs[0])
        sc = raddr.spk_p2pkh(h)
        if wt == 'legacy':
            spk = sc
        elif wt == 'segwit':
            spk = raddr.spk_witness(0, h)
        else:
            spk = raddr.spk_p2sh(codec.hash160(raddr.spk_witness(0, h)))
    return {'pubs': pubs, 'spk': spk, 'script_code': sc, 'amount': inp['value'],
            'sigversion': 'base' if wt == 'legacy' else 'witness_v0', 'm': inp.get('m', 1)}


def output_ref(out, net):
    """(value, scriptPubKey) of an output spec under the reference."""
    k = out['kind']
    p = bytes.fromhex(out['payload'])
    if k == 'p2pkh':
        s = raddr.spk_p2pkh(p[:20])
    elif k == 'p2sh':
        s = raddr.spk_p2sh(p[:20])
    elif k == 'p2wpkh':
        s = raddr.spk_witness(0, p[:20])
    elif k == 'p2wsh':
        s = raddr.spk_witness(0, p[:32])
    elif k == 'p2tr':
        s = raddr.spk_witness(1, p[:32])
    elif k == 'nulldata':
        s = b'\x6a' + codec.push(p[:20])
    else:
        s = b'\x51\x76\x93\x52\x87'      # OP_1 OP_DUP OP_ADD OP_2 OP_EQUAL  (non-standard)
    return out['value'], s


def output_address(out, net):
    k = out['kind']
    p = bytes.fromhex(out['payload'])
    if k == 'p2pkh':
        return raddr.addr_p2pkh(net, p[:20])
    if k == 'p2sh':
        return raddr.addr_p2sh(net, p[:20])
    if k == 'p2wpkh':
        return raddr.addr_witness(net, 0, p[:20])
    if k == 'p2wsh':
        return raddr.addr_witness(net, 0, p[:32])
    if k == 'p2tr':
        return raddr.addr_witness(net, 1, p[:32])
    return None


def build(spec, sign=True, keys_per_input=None):
    """Library Transaction for the spec, built only through the public API.

    keys_per_input: optional list (per input) of lists of key indices to hand over as *private*; other
    keys of that input are handed over as public keys. Default: all private."""
    from bitcoinlib.transactions import Transaction
    from bitcoinlib.keys import Key
    net = spec.get('network', 'bitcoin')
    any_segwit = any(KINDS[i['kind']][1] != 'legacy' for i in spec['inputs'])
    t = Transaction(network=net, witness_type='segwit' if any_segwit else 'legacy', version=spec['version'],
                    locktime=spec['locktime'])
    for n, inp in enumerate(spec['inputs']):
        st, wt, comp, ms = KINDS[inp['kind']]
        priv_idx = range(len(inp['keys'])) if keys_per_input is None else keys_per_input[n]
        ks = []
        for j, d in enumerate(inp['keys']):
            if j in priv_idx:
                ks.append(Key(d.to_bytes(32, 'big').hex(), network=net, compressed=comp))
            else:
                ks.append(Key(secp.ser(secp.pub(d), comp).hex(), network=net))
        t.add_input(inp['txid'], inp['vout'], keys=ks if ms else ks[0], script_type=st, witness_type=wt,
                    sigs_required=inp.get('m', 1) if ms else None, sequence=inp['seq'], value=inp['value'],
                    compressed=comp)
    for out in spec['outputs']:
        a = output_address(out, net)
        if a is not None:
            t.add_output(out['value'], a)
        else:
            t.add_output(out['value'], lock_script=output_ref(out, net)[1])
    if sign:
        t.sign()
    return t


def expected_version(spec):
    """add_input documents: relative-locktime style sequences switch a version-1 transaction to version 2."""
    v = spec['version']
    if v == 1 and any(0 < i['seq'] < 0x80000000 for i in spec['inputs']):
        return 2
    return v


def ref_unsigned(spec):
    """Reference RTx with the fields of the spec (empty scriptSigs, no witness)."""
    from vf.ref.tx import RTx
    net = spec.get('network', 'bitcoin')
    vin = [{'txid': bytes.fromhex(i['txid'])[::-1], 'vout': i['vout'], 'script': b'', 'seq': i['seq']}
           for i in spec['inputs']]
    vout = []
    for o in spec['outputs']:
        v, s = output_ref(o, net)
        vout.append({'value': v, 'script': s})
    return RTx(expected_version(spec), vin, vout, spec['locktime'])


def make_spec(seed, kinds, mn=(2, 3), version=1, locktime=0, seqs=None, values=None, outputs=None,
              network='bitcoin', key_base=0):
    ins = []
    kb = key_base
    for n, k in enumerate(kinds):
        ms = KINDS[k][3]
        nk = mn[1] if ms else 1
        i = {'kind': k, 'keys': [scalar(seed, kb + j) for j in range(nk)], 'txid': prev_txid(seed, n), 'vout': n + 1 if n else 0,
             'seq': (seqs[n % len(seqs)] if seqs else 0xffffffff),
             'value': (values[n % len(values)] if values else 100000 + n)}
        if ms:
            i['m'] = mn[0]
        kb += nk
        ins.append(i)
    if outputs is None:
        outputs = [{'kind': 'p2pkh', 'payload': hashlib.sha256(b'o').hexdigest(), 'value': 1000}]
    return {'network': network, 'version': version, 'locktime': locktime, 'inputs': ins, 'outputs': outputs}


def ref_signature_length(spec, input_index=0, key_index=0):
    """Length (DER + hash-type byte) of the RFC6979 / low-S SIGHASH_ALL signature the reference computes for one key
    of one input of the spec."""
    from vf.ref import tx as rtx
    r0 = ref_unsigned(spec)
    ref = input_ref(spec['inputs'][input_index])
    if ref['sigversion'] == 'base':
        z = rtx.sighash_legacy(r0, input_index, ref['script_code'], 1)
    else:
        z = rtx.sighash_bip143(r0, input_index, ref['script_code'], ref['amount'], 1)
    d = spec['inputs'][input_index]['keys'][key_index]
    k = secp.rfc6979_k(d, z)
    r, s_ = secp.ecdsa_sign_raw(d, int.from_bytes(z, 'big'), k)
    if s_ > secp.N // 2:
        s_ = secp.N - s_
    return len(secp.der_encode(r, s_)) + 1


def tune_locktime_for_signature_length(make, lengths, start=500000100, tries=4000):
    """First locktime >= start for which make(locktime) gives a spec whose reference signature (input 0, key 0) has
    one of the wanted lengths; None if there is none within `tries`."""
    for lt in range(start, start + tries):
        if ref_signature_length(make(lt)) in lengths:
            return lt
    return None
