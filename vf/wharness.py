"""Wallet harness: template databases (created once per worker process, then copied per case),
reference derivation of the addresses a wallet owns, RNG seams. Shared by C07, C08, C09, C10."""
import hashlib
import os
import shutil

from vf import env
from vf.ref import bip32, secp, codec, addr as raddr, nets

NET = 'bitcoinlib_test'
PURPOSE = {'legacy': 44, 'p2sh-segwit': 49, 'segwit': 84}
H = bip32.HARD

_templates = {}
_cache_db = None


def cache_db():
    global _cache_db
    if _cache_db is None:
        _cache_db = env.fresh_db_path('svc_cache')
    return _cache_db


def seed_bytes(seed, tag=0):
    return hashlib.sha256(b'vf-wallet-seed|%d|%d' % (seed, tag)).digest()


def _create(kind, witness_type, seed, network=NET):
    """Create the template wallet 'w' for a configuration in a fresh database; returns the path."""
    from bitcoinlib.wallets import Wallet
    from bitcoinlib.keys import HDKey
    path = env.fresh_db_path('tpl_%s_%s' % (kind, witness_type.replace('-', '')))
    if kind == 'hd':
        k = HDKey.from_seed(seed_bytes(seed).hex(), network=network)
        w = Wallet.create('w', keys=k, network=network, witness_type=witness_type, db_uri=path,
                          db_cache_uri=cache_db())
    elif kind == 'single':
        k = HDKey(seed_bytes(seed).hex(), network=network)
        w = Wallet.create('w', keys=k, network=network, witness_type=witness_type, scheme='single', db_uri=path,
                          db_cache_uri=cache_db())
    elif kind.startswith('ms'):          # ms22, ms23: all cosigner keys private in this wallet
        m, n = int(kind[2]), int(kind[3])
        ks = [HDKey.from_seed(seed_bytes(seed, j).hex(), network=network) for j in range(n)]
        w = Wallet.create('w', keys=ks, sigs_required=m, network=network, witness_type=witness_type, cosigner_id=0, db_uri=path,
                          db_cache_uri=cache_db())
    else:
        raise ValueError(kind)
    w.session.close()
    try:
        w._engine.dispose()
    except Exception:
        pass
    del w
    return path


def template(kind, witness_type, seed, network=NET):
    key = (kind, witness_type, seed, network, os.getpid())
    if key not in _templates:
        _templates[key] = _create(kind, witness_type, seed, network)
    return _templates[key]


def open_copy(kind, witness_type, seed, network=NET):
    """(Wallet object on a private copy of the template database, path)"""
    from bitcoinlib.wallets import Wallet
    src = template(kind, witness_type, seed, network)
    dst = env.fresh_db_path('case')
    shutil.copyfile(src, dst)
    w = Wallet('w', db_uri=dst, db_cache_uri=cache_db())
    return w, dst


def reopen(path):
    from bitcoinlib.wallets import Wallet
    return Wallet('w', db_uri=path, db_cache_uri=cache_db())


def close(w, path=None, remove=True):
    try:
        w.session.close()
    except Exception:
        pass
    try:
        if w._engine is not None:
            w._engine.dispose()
    except Exception:
        pass
    if path and remove:
        env.remove_db(path)


# ------------------------------------------------------------------ reference ownership
def coin_type(network):
    return nets.NETS[network]['bip44_cointype']


def ref_master(seed, tag=0):
    return bip32.master(seed_bytes(seed, tag))


def ref_address_single(pub33, witness_type, network=NET):
    h = codec.hash160(pub33)
    if witness_type == 'legacy':
        return raddr.addr_p2pkh(network, h), raddr.spk_p2pkh(h)
    if witness_type == 'segwit':
        return raddr.addr_witness(network, 0, h), raddr.spk_witness(0, h)
    redeem = raddr.spk_witness(0, h)
    return raddr.addr_p2sh(network, codec.hash160(redeem)), raddr.spk_p2sh(codec.hash160(redeem))


def ref_address_multisig(pubs, m, witness_type, network=NET, sort=True):
    if sort:
        pubs = sorted(pubs)
    redeem = raddr.multisig_script(m, pubs)
    if witness_type == 'legacy':
        h = codec.hash160(redeem)
        return raddr.addr_p2sh(network, h), raddr.spk_p2sh(h), redeem
    wp = codec.sha256(redeem)
    if witness_type == 'segwit':
        return raddr.addr_witness(network, 0, wp), raddr.spk_witness(0, wp), redeem
    inner = raddr.spk_witness(0, wp)
    return raddr.addr_p2sh(network, codec.hash160(inner)), raddr.spk_p2sh(codec.hash160(inner)), redeem


def ref_hd_key(seed, witness_type, change, index, account=0, network=NET):
    m = ref_master(seed)
    return bip32.derive(m, [PURPOSE[witness_type] + H, coin_type(network) + H, account + H, change, index])


def ref_owned(kind, witness_type, seed, change, index, network=NET, cosigner_id=0):
    """(address, scriptPubKey) the reference expects the wallet to own at (change, index)."""
    if kind == 'hd':
        k = ref_hd_key(seed, witness_type, change, index, 0, network)
        return ref_address_single(k.pub, witness_type, network)
    if kind == 'single':
        d = int.from_bytes(seed_bytes(seed), 'big')
        return ref_address_single(secp.ser(secp.pub(d)), witness_type, network)
    m, n = int(kind[2]), int(kind[3])
    pubs = []
    for j in range(n):
        mk = ref_master(seed, j)
        if witness_type == 'legacy':
            # documented key path of legacy multisig wallets (BIP45 style): m/45'/cosigner_index/change/index,
            # cosigner_index = cosigner_id of the wallet that hands out the address (0 for the harness wallet)
            k = bip32.derive(mk, [45 + H, cosigner_id, change, index])
        else:
            script_type_idx = 2 if witness_type == 'segwit' else 1
            k = bip32.derive(mk, [48 + H, coin_type(network) + H, 0 + H, script_type_idx + H, change, index])
        pubs.append(k.pub)
    a, spk, _ = ref_address_multisig(pubs, m, witness_type, network)
    return a, spk


def external_address(i, witness_type='segwit', network=NET):
    """An address that does not belong to any harness wallet."""
    d = int.from_bytes(hashlib.sha256(b'vf-external|%d' % i).digest(), 'big') % (secp.N - 1) + 1
    return ref_address_single(secp.ser(secp.pub(d)), witness_type, network)


def utxo_txid(seed, i):
    return hashlib.sha256(b'vf-utxo|%d|%d' % (seed, i)).hexdigest()


# ------------------------------------------------------------------------------- RNG seams
class ForcedRandom:
    """Context manager forcing the answers of random.randint / random.shuffle / np.random.dirichlet as seen
    by the wallet and transaction modules."""

    def __init__(self, randint_value=None, dirichlet=None, shuffle='identity'):
        self.randint_value = randint_value
        self.dirichlet = dirichlet
        self.shuffle = shuffle
        self.calls = {'randint': 0, 'dirichlet': 0, 'shuffle': 0}

    def __enter__(self):
        import random
        import numpy as np
        self._random = random
        self._np = np
        self._o = (random.randint, random.shuffle, np.random.dirichlet)

        def randint(a, b):
            self.calls['randint'] += 1
            if self.randint_value is None:
                return a
            return min(max(self.randint_value, a), b)

        def shuffle(x):
            self.calls['shuffle'] += 1
            if self.shuffle == 'reverse':
                x.reverse()

        def dirichlet(alpha, size=None):
            self.calls['dirichlet'] += 1
            n = len(alpha)
            kind = self.dirichlet or 'uniform'
            if kind == 'uniform':
                v = [1.0 / n] * n
            elif kind == 'first':
                v = [1.0] + [0.0] * (n - 1)
            elif kind == 'last':
                v = [0.0] * (n - 1) + [1.0]
            else:  # near one-hot
                eps = 1e-9
                v = [1.0 - eps * (n - 1)] + [eps] * (n - 1)
            return np.array([v])
        random.randint = randint
        random.shuffle = shuffle
        np.random.dirichlet = dirichlet
        return self

    def __exit__(self, *a):
        self._random.randint, self._random.shuffle, self._np.random.dirichlet = self._o
        return False
