"""Scratch environment for every check run.

bitcoinlib copies data/*.json into BCL_DATA_DIR at first import and reads its network and
provider tables from there, so every run gets a fresh scratch directory: edits to
/repo/bitcoinlib/data are then visible and no state of an earlier run (or of ~/.bitcoinlib)
can influence a result.  The directory lives in /dev/shm when available and is removed at
exit of the process that created it.
"""
import atexit
import os
import shutil
import tempfile

_SCRATCH = None
_OWNER_PID = None


def scratch_dir():
    return _SCRATCH


def setup():
    """Create the scratch BCL_DATA_DIR; must run before bitcoinlib is imported."""
    global _SCRATCH, _OWNER_PID
    if _SCRATCH:
        return _SCRATCH
    base = '/dev/shm' if os.path.isdir('/dev/shm') and os.access('/dev/shm', os.W_OK) else None
    _SCRATCH = tempfile.mkdtemp(prefix='vf_bcl_', dir=base)
    _OWNER_PID = os.getpid()
    os.environ['BCL_DATA_DIR'] = _SCRATCH
    # a user-level setting must never change what is checked
    for k in ('DB_FIELD_ENCRYPTION_KEY', 'DB_FIELD_ENCRYPTION_PASSWORD', 'USE_FASTECDSA',
              'USING_MODULE_SCRYPT'):
        os.environ.pop(k, None)
    atexit.register(cleanup)
    return _SCRATCH


def cleanup():
    global _SCRATCH
    if _SCRATCH and _OWNER_PID == os.getpid():
        shutil.rmtree(_SCRATCH, ignore_errors=True)
        _SCRATCH = None


_dbcount = 0


def fresh_db_path(tag='w'):
    """A new sqlite file name inside the scratch directory (unique per process and call)."""
    global _dbcount
    _dbcount += 1
    d = os.path.join(_SCRATCH, 'database')
    os.makedirs(d, exist_ok=True)
    return os.path.join(d, '%s_%d_%d.sqlite' % (tag, os.getpid(), _dbcount))


def remove_db(path):
    for suf in ('', '-journal', '-wal', '-shm'):
        try:
            os.remove(path + suf)
        except OSError:
            pass
