"""secp256k1 group arithmetic, ECDSA and RFC 6979 in plain Python integers.

Written from SEC 2 / FIPS 186 / RFC 6979; shares no code with bitcoinlib or fastecdsa.
"""
import hashlib
import hmac

P = 0xFFFFFFFFFFFFFFFFFFFFFFFFFFFFFFFFFFFFFFFFFFFFFFFFFFFFFFFEFFFFFC2F
N = 0xFFFFFFFFFFFFFFFFFFFFFFFFFFFFFFFEBAAEDCE6AF48A03BBFD25E8CD0364141
GX = 0x79BE667EF9DCBBAC55A06295CE870B07029BFCDB2DCE28D959F2815B16F81798
GY = 0x483ADA7726A3C4655DA4FBFC0E1108A8FD17B448A68554199C47D08FFB10D4B8
G = (GX, GY)
INF = None


def on_curve(pt):
    if pt is None:
        return True
    x, y = pt
    return 0 <= x < P and 0 <= y < P and (y * y - x * x * x - 7) % P == 0


# Jacobian coordinates (X, Y, Z); infinity has Z == 0
def _jdbl(p):
    X, Y, Z = p
    if Z == 0 or Y == 0:
        return (0, 1, 0)
    S = 4 * X * Y * Y % P
    M = 3 * X * X % P
    X2 = (M * M - 2 * S) % P
    Y2 = (M * (S - X2) - 8 * Y * Y * Y * Y) % P
    Z2 = 2 * Y * Z % P
    return (X2, Y2, Z2)


def _jadd(p, q):
    X1, Y1, Z1 = p
    X2, Y2, Z2 = q
    if Z1 == 0:
        return q
    if Z2 == 0:
        return p
    Z1Z1 = Z1 * Z1 % P
    Z2Z2 = Z2 * Z2 % P
    U1 = X1 * Z2Z2 % P
    U2 = X2 * Z1Z1 % P
    S1 = Y1 * Z2 * Z2Z2 % P
    S2 = Y2 * Z1 * Z1Z1 % P
    if U1 == U2:
        if S1 != S2:
            return (0, 1, 0)
        return _jdbl(p)
    H = (U2 - U1) % P
    R = (S2 - S1) % P
    H2 = H * H % P
    H3 = H * H2 % P
    V = U1 * H2 % P
    X3 = (R * R - H3 - 2 * V) % P
    Y3 = (R * (V - X3) - S1 * H3) % P
    Z3 = H * Z1 * Z2 % P
    return (X3, Y3, Z3)


def _to_affine(p):
    X, Y, Z = p
    if Z == 0:
        return None
    zi = pow(Z, -1, P)
    zi2 = zi * zi % P
    return (X * zi2 % P, Y * zi2 * zi % P)


def _to_jac(pt):
    return (0, 1, 0) if pt is None else (pt[0], pt[1], 1)


def add(a, b):
    return _to_affine(_jadd(_to_jac(a), _to_jac(b)))


def neg(a):
    return None if a is None else (a[0], (-a[1]) % P)


def _jmul(k, pt):
    k %= N
    r = (0, 1, 0)
    q = _to_jac(pt)
    while k:
        if k & 1:
            r = _jadd(r, q)
        q = _jdbl(q)
        k >>= 1
    return r


def mul(k, pt=G):
    return _to_affine(_jmul(k, pt))


# table of 2^i * G for faster base-point multiplication
_GT = []


def _gtable():
    if not _GT:
        q = _to_jac(G)
        for _ in range(256):
            _GT.append(q)
            q = _jdbl(q)
    return _GT


def mul_g(k):
    k %= N
    t = _gtable()
    r = (0, 1, 0)
    i = 0
    while k:
        if k & 1:
            r = _jadd(r, t[i])
        k >>= 1
        i += 1
    return _to_affine(r)


def pub(d):
    """Public point of a private scalar; d must be in [1, N-1]."""
    if not 1 <= d < N:
        raise ValueError('scalar out of range')
    return mul_g(d)


def ser(pt, compressed=True):
    x, y = pt
    if compressed:
        return bytes([2 + (y & 1)]) + x.to_bytes(32, 'big')
    return b'\x04' + x.to_bytes(32, 'big') + y.to_bytes(32, 'big')


def lift_x(x, odd):
    """Point with this x and the requested parity, or None if x is not on the curve."""
    if not 0 <= x < P:
        return None
    y2 = (pow(x, 3, P) + 7) % P
    y = pow(y2, (P + 1) // 4, P)
    if y * y % P != y2:
        return None
    if (y & 1) != int(bool(odd)):
        y = P - y
    return (x, y)


def decode_pub(b):
    """SEC1 decoding (compressed 02/03, uncompressed 04); None if not a valid public key."""
    if len(b) == 33 and b[0] in (2, 3):
        return lift_x(int.from_bytes(b[1:], 'big'), b[0] == 3)
    if len(b) == 65 and b[0] == 4:
        pt = (int.from_bytes(b[1:33], 'big'), int.from_bytes(b[33:], 'big'))
        return pt if on_curve(pt) else None
    return None


def ecdsa_verify(z, r, s, pt):
    """Textbook ECDSA verification; z is the digest as integer (already 256 bit)."""
    if pt is None or not on_curve(pt):
        return False
    if not (1 <= r < N and 1 <= s < N):
        return False
    w = pow(s, -1, N)
    u1 = z * w % N
    u2 = r * w % N
    R = _to_affine(_jadd(_jmul(u1, G) if u1 else (0, 1, 0), _jmul(u2, pt) if u2 else (0, 1, 0)))
    if R is None:
        return False
    return R[0] % N == r


def ecdsa_sign_raw(d, z, k):
    """(r, s) without low-S normalisation; None if r or s is zero."""
    R = mul_g(k)
    if R is None:
        return None
    r = R[0] % N
    if r == 0:
        return None
    s = pow(k, -1, N) * (z + r * d) % N
    if s == 0:
        return None
    return r, s


def rfc6979_k(d, digest32, extra=b''):
    """RFC 6979 section 3.2 with HMAC-SHA256, qlen = 256; digest32 is h1 (32 bytes)."""
    x = d.to_bytes(32, 'big')
    h1 = (int.from_bytes(digest32, 'big') % N).to_bytes(32, 'big')  # bits2octets
    V = b'\x01' * 32
    K = b'\x00' * 32
    K = hmac.new(K, V + b'\x00' + x + h1 + extra, hashlib.sha256).digest()
    V = hmac.new(K, V, hashlib.sha256).digest()
    K = hmac.new(K, V + b'\x01' + x + h1 + extra, hashlib.sha256).digest()
    V = hmac.new(K, V, hashlib.sha256).digest()
    while True:
        V = hmac.new(K, V, hashlib.sha256).digest()
        k = int.from_bytes(V, 'big')
        if 1 <= k < N:
            return k
        K = hmac.new(K, V + b'\x00', hashlib.sha256).digest()
        V = hmac.new(K, V, hashlib.sha256).digest()


# ---------------------------------------------------------------- strict DER (BIP66)
def der_encode(r, s):
    def enc_int(v):
        b = v.to_bytes((v.bit_length() + 7) // 8 or 1, 'big')
        if b[0] & 0x80:
            b = b'\x00' + b
        return b'\x02' + bytes([len(b)]) + b
    body = enc_int(r) + enc_int(s)
    return b'\x30' + bytes([len(body)]) + body


def is_strict_der(sig):
    """BIP66 IsValidSignatureEncoding on the DER part (without the hash-type byte)."""
    sig = sig + b'\x01'  # the BIP66 routine includes the sighash byte
    if len(sig) < 9 or len(sig) > 73:
        return False
    if sig[0] != 0x30:
        return False
    if sig[1] != len(sig) - 3:
        return False
    lenR = sig[3]
    if 5 + lenR >= len(sig):
        return False
    lenS = sig[5 + lenR]
    if lenR + lenS + 7 != len(sig):
        return False
    if sig[2] != 0x02:
        return False
    if lenR == 0:
        return False
    if sig[4] & 0x80:
        return False
    if lenR > 1 and sig[4] == 0 and not (sig[5] & 0x80):
        return False
    if sig[lenR + 4] != 0x02:
        return False
    if lenS == 0:
        return False
    if sig[lenR + 6] & 0x80:
        return False
    if lenS > 1 and sig[lenR + 6] == 0 and not (sig[lenR + 7] & 0x80):
        return False
    return True


def der_decode_strict(sig):
    """(r, s) of a strictly encoded signature, else None."""
    if not is_strict_der(sig):
        return None
    lenR = sig[3]
    r = int.from_bytes(sig[4:4 + lenR], 'big')
    lenS = sig[5 + lenR]
    s = int.from_bytes(sig[6 + lenR:6 + lenR + lenS], 'big')
    return r, s


def selftest():
    assert on_curve(G)
    assert mul(N - 1) == neg(G)
    assert mul_g(N - 1) == neg(G)
    assert mul(2) == add(G, G)
    assert mul_g(12345678901234567890) == mul(12345678901234567890)
    # well known 2G, 3G
    assert mul_g(2)[0] == 0xC6047F9441ED7D6D3045406E95C07CD85C778E4B8CEF3CA7ABAC09B95C709EE5
    assert mul_g(3)[0] == 0xF9308A019258C31049344F85F89D5229B531C845836F99B08601F113BCE036F9
    # RFC 6979 style vectors for secp256k1 (from the bitcoin-core/secp256k1 / trezor test sets)
    vec = [
        (1, b'Satoshi Nakamoto',
         0x8F8A276C19F4149656B280621E358CCE24F5F52542772691EE69063B74F15D15),
        (1, b'All those moments will be lost in time, like tears in rain. Time to die...',
         0x38AA22D72376B4DBC472E06C3BA403EE0A394DA63FC58D88686C611ABA98D6B3),
        (N - 1, b'Satoshi Nakamoto',
         0x33A19B60E25FB6F4435AF53A3D42D493644827367E6453928554F43E49AA6F90),
        (0xf8b8af8ce3c7cca5e300d33939540c10d45ce001b8f252bfbc57ba0342904181, b'Alan Turing',
         0x525A82B70E67874398067543FD84C83D30C175FDC45FDEEE082FE13B1D7CFDF1),
    ]
    for d, msg, k in vec:
        h = hashlib.sha256(msg).digest()
        assert rfc6979_k(d, h) == k, (d, msg)
        r, s = ecdsa_sign_raw(d, int.from_bytes(h, 'big'), k)
        assert ecdsa_verify(int.from_bytes(h, 'big'), r, s, pub(d))
        assert ecdsa_verify(int.from_bytes(h, 'big'), r, N - s, pub(d))
        assert not ecdsa_verify(int.from_bytes(h, 'big') ^ 1, r, s, pub(d))
        der = der_encode(r, s)
        assert is_strict_der(der) and der_decode_strict(der) == (r, s)
    assert not is_strict_der(b'\x30\x06\x02\x01\x80\x02\x01\x01')       # negative R
    assert not is_strict_der(b'\x30\x07\x02\x02\x00\x01\x02\x01\x01')   # padded R
    assert decode_pub(ser(G)) == G and decode_pub(ser(G, False)) == G
    assert lift_x(5, 0) is None
