"""Transaction wire format (incl. BIP144), legacy and BIP143 signature hashes - from the specs."""
from .codec import cs_encode, cs_decode, dsha256

SIGHASH_ALL = 1
SIGHASH_NONE = 2
SIGHASH_SINGLE = 3
SIGHASH_ANYONECANPAY = 0x80


class RTx:
    """vin: list of dicts {txid: 32 bytes in wire (little-endian) order, vout, script, seq};
    vout: list of dicts {value, script}; wit: None or list (one list of byte strings per input)."""

    def __init__(self, version=1, vin=None, vout=None, locktime=0, wit=None):
        self.version = version
        self.vin = vin or []
        self.vout = vout or []
        self.locktime = locktime
        self.wit = wit

    def has_witness(self):
        return self.wit is not None and any(len(w) for w in self.wit)


def ser_vin(i):
    return i['txid'] + i['vout'].to_bytes(4, 'little') + cs_encode(len(i['script'])) + i['script'] + \
        i['seq'].to_bytes(4, 'little')


def ser_vout(o):
    return o['value'].to_bytes(8, 'little') + cs_encode(len(o['script'])) + o['script']


def serialize(tx, witness=True, force_marker=False):
    out = tx.version.to_bytes(4, 'little')
    use_wit = witness and (tx.has_witness() or (force_marker and tx.wit is not None))
    if use_wit:
        out += b'\x00\x01'
    out += cs_encode(len(tx.vin)) + b''.join(ser_vin(i) for i in tx.vin)
    out += cs_encode(len(tx.vout)) + b''.join(ser_vout(o) for o in tx.vout)
    if use_wit:
        for w in tx.wit:
            out += cs_encode(len(w))
            for item in w:
                out += cs_encode(len(item)) + item
    out += tx.locktime.to_bytes(4, 'little')
    return out


def txid(tx):
    """hex id as shown to users (byte-reversed double SHA256 of the stripped serialisation)."""
    return dsha256(serialize(tx, witness=False))[::-1].hex()


def wtxid(tx):
    return dsha256(serialize(tx, witness=True))[::-1].hex()


class _R:
    def __init__(self, b):
        self.b = b
        self.p = 0

    def take(self, n):
        if self.p + n > len(self.b):
            raise ValueError('short read')
        r = self.b[self.p:self.p + n]
        self.p += n
        return r

    def u(self, n):
        return int.from_bytes(self.take(n), 'little')

    def cs(self):
        if self.p >= len(self.b):
            raise ValueError('short read')
        v, sz = cs_decode(self.b, self.p)
        self.p += sz
        return v


def parse(raw):
    r = _R(raw)
    tx = RTx()
    tx.version = r.u(4)
    n_in = r.cs()
    segwit = False
    if n_in == 0:
        flag = r.u(1)
        if flag != 1:
            raise ValueError('bad segwit flag')
        segwit = True
        n_in = r.cs()
    for _ in range(n_in):
        t = r.take(32)
        v = r.u(4)
        s = r.take(r.cs())
        q = r.u(4)
        tx.vin.append({'txid': t, 'vout': v, 'script': s, 'seq': q})
    for _ in range(r.cs()):
        val = r.u(8)
        s = r.take(r.cs())
        tx.vout.append({'value': val, 'script': s})
    if segwit:
        tx.wit = []
        for _ in range(n_in):
            tx.wit.append([r.take(r.cs()) for _ in range(r.cs())])
    tx.locktime = r.u(4)
    if r.p != len(raw):
        raise ValueError('trailing bytes')
    return tx


def _strip_codesep(script):
    # remove OP_CODESEPARATOR (0xab) opcodes, respecting pushes
    from .codec import script_tokens
    try:
        toks = script_tokens(script)
    except ValueError:
        return script
    if not any(op == 0xab for op, _ in toks):
        return script
    out = b''
    i = 0
    # re-walk to keep the original push encodings
    n = len(script)
    while i < n:
        op = script[i]
        start = i
        i += 1
        if 1 <= op < 0x4c:
            i += op
        elif op == 0x4c:
            i += 1 + script[i]
        elif op == 0x4d:
            i += 2 + int.from_bytes(script[i:i + 2], 'little')
        elif op == 0x4e:
            i += 4 + int.from_bytes(script[i:i + 4], 'little')
        if op != 0xab:
            out += script[start:i]
    return out


def sighash_legacy(tx, idx, script_code, hashtype):
    """Original (pre-segwit) signature hash, all hash types, 32-byte digest."""
    if idx >= len(tx.vin):
        return (1).to_bytes(32, 'little')
    base = hashtype & 0x1f
    if base == SIGHASH_SINGLE and idx >= len(tx.vout):
        return (1).to_bytes(32, 'little')
    script_code = _strip_codesep(script_code)
    vin = []
    for j, i in enumerate(tx.vin):
        e = dict(i)
        e['script'] = script_code if j == idx else b''
        if j != idx and base in (SIGHASH_NONE, SIGHASH_SINGLE):
            e['seq'] = 0
        vin.append(e)
    if hashtype & SIGHASH_ANYONECANPAY:
        vin = [vin[idx]]
    if base == SIGHASH_NONE:
        vout_ser = cs_encode(0)
    elif base == SIGHASH_SINGLE:
        vout_ser = cs_encode(idx + 1)
        for j in range(idx):
            vout_ser += (0xffffffffffffffff).to_bytes(8, 'little') + cs_encode(0)
        vout_ser += ser_vout(tx.vout[idx])
    else:
        vout_ser = cs_encode(len(tx.vout)) + b''.join(ser_vout(o) for o in tx.vout)
    pre = tx.version.to_bytes(4, 'little') + cs_encode(len(vin)) + b''.join(ser_vin(i) for i in vin) + \
        vout_ser + tx.locktime.to_bytes(4, 'little') + hashtype.to_bytes(4, 'little')
    return dsha256(pre)


def sighash_bip143(tx, idx, script_code, amount, hashtype):
    base = hashtype & 0x1f
    acp = bool(hashtype & SIGHASH_ANYONECANPAY)
    hp = hs = ho = bytes(32)
    if not acp:
        hp = dsha256(b''.join(i['txid'] + i['vout'].to_bytes(4, 'little') for i in tx.vin))
    if not acp and base not in (SIGHASH_SINGLE, SIGHASH_NONE):
        hs = dsha256(b''.join(i['seq'].to_bytes(4, 'little') for i in tx.vin))
    if base not in (SIGHASH_SINGLE, SIGHASH_NONE):
        ho = dsha256(b''.join(ser_vout(o) for o in tx.vout))
    elif base == SIGHASH_SINGLE and idx < len(tx.vout):
        ho = dsha256(ser_vout(tx.vout[idx]))
    i = tx.vin[idx]
    pre = tx.version.to_bytes(4, 'little') + hp + hs + i['txid'] + i['vout'].to_bytes(4, 'little') + \
        cs_encode(len(script_code)) + script_code + amount.to_bytes(8, 'little') + \
        i['seq'].to_bytes(4, 'little') + ho + tx.locktime.to_bytes(4, 'little') + \
        hashtype.to_bytes(4, 'little')
    return dsha256(pre)


def selftest():
    # BIP143 example: native P2WPKH (second input)
    raw = bytes.fromhex(
        '0100000002fff7f7881a8099afa6940d42d1e7f6362bec38171ea3edf433541db4e4ad969f0000000000eeffffff'
        'ef51e1b804cc89d182d279655c3aa89e815b1b309fe287d9b2b55d57b90ec68a0100000000ffffffff02202cb206'
        '000000001976a9148280b37df378db99f66f85c95a783a76ac7a6d5988ac9093510d000000001976a9143bde42db'
        'ee7e4dbe6a21b2d50ce2f0167faa815988ac11000000')
    tx = parse(raw)
    assert serialize(tx) == raw
    sc = bytes.fromhex('76a9141d0f172a0ecb48aee1be1f2687d2963ae33f71a188ac')
    h = sighash_bip143(tx, 1, sc, 600000000, 1)
    assert h.hex() == 'c37af31116d1b27caf68aae9e3ac82f1477929014d5b917657d0eb49478cb670'
    # BIP143 example: P2SH-P2WPKH
    raw = bytes.fromhex(
        '0100000001db6b1b20aa0fd7b23880be2ecbd4a98130974cf4748fb66092ac4d3ceb1a54770100000000feffffff'
        '02b8b4eb0b000000001976a914a457b684d7f0d539a46a45bbc043f35b59d0d96388ac0008af2f000000001976a9'
        '14fd270b1ee6abcaea97fea7ad0402e8bd8ad6d77c88ac92040000')
    tx = parse(raw)
    sc = bytes.fromhex('76a91479091972186c449eb1ded22b78e40d009bdf008988ac')
    h = sighash_bip143(tx, 0, sc, 1000000000, 1)
    assert h.hex() == '64f3b0f4dd2bb3aa1ce8566d220cc74dda9df97d8490cc81d89d735c92e59fb6'
    # BIP143 example: native P2WSH with SIGHASH_SINGLE, first script code (incl. OP_CODESEPARATOR)
    raw = bytes.fromhex(
        '0100000002fe3dc9208094f3ffd12645477b3dc56f60ec4fa8e6f5d67c565d1c6b9216b36e0000000000ffffffff'
        '0815cf020f013ed6cf91d29f4202e8a58726b1ac6c79da47c23d1bee0a6925f80000000000ffffffff0100f2052a'
        '010000001976a914a30741f8145e5acadf23f751864167f32e0963f788ac00000000')
    tx = parse(raw)
    sc = bytes.fromhex('21026dccc749adc2a9d0d89497ac511f760f45c47dc5ed9cf352a58ac706453880aeadab210255a9'
                       '626aebf5e29c0e6538428ba0d1dcf6ca98ffdf086aa8ced5e0d0215ea465ac')
    h = sighash_bip143(tx, 1, sc, 4900000000, 3)
    assert h.hex() == '82dde6e4f1e94d02c2b7ad03d2115d691f48d064e9d52f58194a6637e4194391'
    # a well known legacy transaction: first ever P2PKH-style spend digest is checked through
    # signature verification in interp.selftest(); here the txid law
    raw = bytes.fromhex(
        '01000000010000000000000000000000000000000000000000000000000000000000000000ffffffff4d04ffff00'
        '1d0104455468652054696d65732030332f4a616e2f32303039204368616e63656c6c6f72206f6e206272696e6b20'
        '6f66207365636f6e64206261696c6f757420666f722062616e6b73ffffffff0100f2052a01000000434104678afd'
        'b0fe5548271967f1a67130b7105cd6a828e03909a67962e0ea1f61deb649f6bc3f4cef38c4f35504e51ec112de5c'
        '384df7ba0b8d578a4c702b6bf11d5fac00000000')
    tx = parse(raw)
    assert txid(tx) == '4a5e1e4baab89f3a32518a88c31bc87f618f76673e2cc77ab2127b7afdeda33b'
    assert serialize(tx) == raw
    # segwit tx: txid excludes witness
    raw = bytes.fromhex(
        '01000000000102fff7f7881a8099afa6940d42d1e7f6362bec38171ea3edf433541db4e4ad969f00000000494830'
        '450221008b9d1dc26ba6a9cb62127b02742fa9d754cd3bebf337f7a55d114c8e5cdd30be022040529b194ba3f9281'
        'a99f2b1c0a19c0489bc22ede944ccf4ecbab4cc618ef3ed01eeffffffef51e1b804cc89d182d279655c3aa89e815b'
        '1b309fe287d9b2b55d57b90ec68a0100000000ffffffff02202cb206000000001976a9148280b37df378db99f66f8'
        '5c95a783a76ac7a6d5988ac9093510d000000001976a9143bde42dbee7e4dbe6a21b2d50ce2f0167faa815988ac00'
        '0247304402203609e17b84f6a7d30c80bfa610b5b4542f32a8a0d5447a12fb1366d7f01cc44a0220573a954c45183'
        '31561406f90300e8f3358f51928d43c212a8caed02de67eebee0121025476c2e83188368da1ff3e292e7acafcdb35'
        '66bb0ad253f62fc70f07aeee635711000000')
    tx = parse(raw)
    assert serialize(tx) == raw
    assert tx.wit[0] == [] and len(tx.wit[1]) == 2
    assert txid(tx) == 'e8151a2af31c368a35053ddd4bdb285a8595c769a3ad83e0fa02314a602d4609'
