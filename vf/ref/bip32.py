"""BIP32 reference (from the specification)."""
import hashlib
import hmac

from . import secp
from .codec import b58check_encode, b58check_decode, hash160

HARD = 0x80000000


class XKey:
    def __init__(self, secret, point, chain, depth=0, parent_fp=b'\0\0\0\0', child=0):
        self.secret = secret      # int or None
        self.point = point        # affine point
        self.chain = chain
        self.depth = depth
        self.parent_fp = parent_fp
        self.child = child

    @property
    def pub(self):
        return secp.ser(self.point)

    def fingerprint(self):
        return hash160(self.pub)[:4]

    def neuter(self):
        return XKey(None, self.point, self.chain, self.depth, self.parent_fp, self.child)

    def ser(self, ver4, private):
        if private:
            assert self.secret is not None
            kd = b'\0' + self.secret.to_bytes(32, 'big')
        else:
            kd = self.pub
        return b58check_encode(ver4 + bytes([self.depth & 0xff]) + self.parent_fp +
                               self.child.to_bytes(4, 'big') + self.chain + kd)


def master(seed):
    I = hmac.new(b'Bitcoin seed', seed, hashlib.sha512).digest()
    k = int.from_bytes(I[:32], 'big')
    if not 1 <= k < secp.N:
        raise ValueError('invalid master')
    return XKey(k, secp.pub(k), I[32:])


def ckd_priv(x, i):
    assert x.secret is not None
    if i >= HARD:
        data = b'\0' + x.secret.to_bytes(32, 'big') + i.to_bytes(4, 'big')
    else:
        data = x.pub + i.to_bytes(4, 'big')
    I = hmac.new(x.chain, data, hashlib.sha512).digest()
    il = int.from_bytes(I[:32], 'big')
    k = (il + x.secret) % secp.N
    if il >= secp.N or k == 0:
        raise ValueError('invalid child')
    return XKey(k, secp.pub(k), I[32:], x.depth + 1, x.fingerprint(), i)


def ckd_pub(x, i):
    if i >= HARD:
        raise ValueError('hardened from public')
    I = hmac.new(x.chain, x.pub + i.to_bytes(4, 'big'), hashlib.sha512).digest()
    il = int.from_bytes(I[:32], 'big')
    if il >= secp.N:
        raise ValueError('invalid child')
    pt = secp.add(secp.mul_g(il), x.point)
    if pt is None:
        raise ValueError('invalid child')
    return XKey(None, pt, I[32:], x.depth + 1, x.fingerprint(), i)


def derive(x, path):
    """path: list of ints (already including the hardened bit)."""
    for i in path:
        x = ckd_priv(x, i) if x.secret is not None else ckd_pub(x, i)
    return x


def parse_xkey(s):
    """(ver4, XKey, is_private) or None."""
    p = b58check_decode(s)
    if p is None or len(p) != 78:
        return None
    ver, depth, fp, child, chain, kd = p[:4], p[4], p[5:9], int.from_bytes(p[9:13], 'big'), p[13:45], p[45:]
    if kd[0] == 0:
        k = int.from_bytes(kd[1:], 'big')
        if not 1 <= k < secp.N:
            return None
        return ver, XKey(k, secp.pub(k), chain, depth, fp, child), True
    pt = secp.decode_pub(kd)
    if pt is None:
        return None
    return ver, XKey(None, pt, chain, depth, fp, child), False


XPRV = bytes.fromhex('0488ade4')
XPUB = bytes.fromhex('0488b21e')
H = HARD

VECTORS = [
    ('000102030405060708090a0b0c0d0e0f', [
        ([], 'xpub661MyMwAqRbcFtXgS5sYJABqqG9YLmC4Q1Rdap9gSE8NqtwybGhePY2gZ29ESFjqJoCu1Rupje8YtGqsefD265TMg7usUDFdp6W1EGMcet8',
         'xprv9s21ZrQH143K3QTDL4LXw2F7HEK3wJUD2nW2nRk4stbPy6cq3jPPqjiChkVvvNKmPGJxWUtg6LnF5kejMRNNU3TGtRBeJgk33yuGBxrMPHi'),
        ([H], 'xpub68Gmy5EdvgibQVfPdqkBBCHxA5htiqg55crXYuXoQRKfDBFA1WEjWgP6LHhwBZeNK1VTsfTFUHCdrfp1bgwQ9xv5ski8PX9rL2dZXvgGDnw',
         'xprv9uHRZZhk6KAJC1avXpDAp4MDc3sQKNxDiPvvkX8Br5ngLNv1TxvUxt4cV1rGL5hj6KCesnDYUhd7oWgT11eZG7XnxHrnYeSvkzY7d2bhkJ7'),
        ([H, 1], 'xpub6ASuArnXKPbfEwhqN6e3mwBcDTgzisQN1wXN9BJcM47sSikHjJf3UFHKkNAWbWMiGj7Wf5uMash7SyYq527Hqck2AxYysAA7xmALppuCkwQ',
         'xprv9wTYmMFdV23N2TdNG573QoEsfRrWKQgWeibmLntzniatZvR9BmLnvSxqu53Kw1UmYPxLgboyZQaXwTCg8MSY3H2EU4pWcQDnRnrVA1xe8fs'),
        ([H, 1, 2 + H], 'xpub6D4BDPcP2GT577Vvch3R8wDkScZWzQzMMUm3PWbmWvVJrZwQY4VUNgqFJPMM3No2dFDFGTsxxpG5uJh7n7epu4trkrX7x7DogT5Uv6fcLW5',
         'xprv9z4pot5VBttmtdRTWfWQmoH1taj2axGVzFqSb8C9xaxKymcFzXBDptWmT7FwuEzG3ryjH4ktypQSAewRiNMjANTtpgP4mLTj34bhnZX7UiM'),
        ([H, 1, 2 + H, 2], 'xpub6FHa3pjLCk84BayeJxFW2SP4XRrFd1JYnxeLeU8EqN3vDfZmbqBqaGJAyiLjTAwm6ZLRQUMv1ZACTj37sR62cfN7fe5JnJ7dh8zL4fiyLHV',
         'xprvA2JDeKCSNNZky6uBCviVfJSKyQ1mDYahRjijr5idH2WwLsEd4Hsb2Tyh8RfQMuPh7f7RtyzTtdrbdqqsunu5Mm3wDvUAKRHSC34sJ7in334'),
        ([H, 1, 2 + H, 2, 1000000000], 'xpub6H1LXWLaKsWFhvm6RVpEL9P4KfRZSW7abD2ttkWP3SSQvnyA8FSVqNTEcYFgJS2UaFcxupHiYkro49S8yGasTvXEYBVPamhGW6cFJodrTHy',
         'xprvA41z7zogVVwxVSgdKUHDy1SKmdb533PjDz7J6N6mV6uS3ze1ai8FHa8kmHScGpWmj4WggLyQjgPie1rFSruoUihUZREPSL39UNdE3BBDu76'),
    ]),
    ('fffcf9f6f3f0edeae7e4e1dedbd8d5d2cfccc9c6c3c0bdbab7b4b1aeaba8a5a29f9c999693908d8a8784817e7b7875726f6c696663605d5a5754514e4b484542', [
        ([], 'xpub661MyMwAqRbcFW31YEwpkMuc5THy2PSt5bDMsktWQcFF8syAmRUapSCGu8ED9W6oDMSgv6Zz8idoc4a6mr8BDzTJY47LJhkJ8UB7WEGuduB',
         'xprv9s21ZrQH143K31xYSDQpPDxsXRTUcvj2iNHm5NUtrGiGG5e2DtALGdso3pGz6ssrdK4PFmM8NSpSBHNqPqm55Qn3LqFtT2emdEXVYsCzC2U'),
        ([0], 'xpub69H7F5d8KSRgmmdJg2KhpAK8SR3DjMwAdkxj3ZuxV27CprR9LgpeyGmXUbC6wb7ERfvrnKZjXoUmmDznezpbZb7ap6r1D3tgFxHmwMkQTPH',
         'xprv9vHkqa6EV4sPZHYqZznhT2NPtPCjKuDKGY38FBWLvgaDx45zo9WQRUT3dKYnjwih2yJD9mkrocEZXo1ex8G81dwSM1fwqWpWkeS3v86pgKt'),
        ([0, 2147483647 + H], 'xpub6ASAVgeehLbnwdqV6UKMHVzgqAG8Gr6riv3Fxxpj8ksbH9ebxaEyBLZ85ySDhKiLDBrQSARLq1uNRts8RuJiHjaDMBU4Zn9h8LZNnBC5y4a',
         'xprv9wSp6B7kry3Vj9m1zSnLvN3xH8RdsPP1Mh7fAaR7aRLcQMKTR2vidYEeEg2mUCTAwCd6vnxVrcjfy2kRgVsFawNzmjuHc2YmYRmagcEPdU9'),
        ([0, 2147483647 + H, 1], 'xpub6DF8uhdarytz3FWdA8TvFSvvAh8dP3283MY7p2V4SeE2wyWmG5mg5EwVvmdMVCQcoNJxGoWaU9DCWh89LojfZ537wTfunKau47EL2dhHKon',
         'xprv9zFnWC6h2cLgpmSA46vutJzBcfJ8yaJGg8cX1e5StJh45BBciYTRXSd25UEPVuesF9yog62tGAQtHjXajPPdbRCHuWS6T8XA2ECKADdw4Ef'),
        ([0, 2147483647 + H, 1, 2147483646 + H], 'xpub6ERApfZwUNrhLCkDtcHTcxd75RbzS1ed54G1LkBUHQVHQKqhMkhgbmJbZRkrgZw4koxb5JaHWkY4ALHY2grBGRjaDMzQLcgJvLJuZZvRcEL',
         'xprvA1RpRA33e1JQ7ifknakTFpgNXPmW2YvmhqLQYMmrj4xJXXWYpDPS3xz7iAxn8L39njGVyuoseXzU6rcxFLJ8HFsTjSyQbLYnMpCqE2VbFWc'),
        ([0, 2147483647 + H, 1, 2147483646 + H, 2], 'xpub6FnCn6nSzZAw5Tw7cgR9bi15UV96gLZhjDstkXXxvCLsUXBGXPdSnLFbdpq8p9HmGsApME5hQTZ3emM2rnY5agb9rXpVGyy3bdW6EEgAtqt',
         'xprvA2nrNbFZABcdryreWet9Ea4LvTJcGsqrMzxHx98MMrotbir7yrKCEXw7nadnHM8Dq38EGfSh6dqA9QWTyefMLEcBYJUuekgW4BYPJcr9E7j'),
    ]),
    ('4b381541583be4423346c643850da4b320e46a87ae3d2a4e6da11eba819cd4acba45d239319ac14f863b8d5ab5a0d0c64d2e8a1e7d1457df2e5a3c51c73235be', [
        ([], 'xpub661MyMwAqRbcEZVB4dScxMAdx6d4nFc9nvyvH3v4gJL378CSRZiYmhRoP7mBy6gSPSCYk6SzXPTf3ND1cZAceL7SfJ1Z3GC8vBgp2epUt13',
         'xprv9s21ZrQH143K25QhxbucbDDuQ4naNntJRi4KUfWT7xo4EKsHt2QJDu7KXp1A3u7Bi1j8ph3EGsZ9Xvz9dGuVrtHHs7pXeTzjuxBrCmmhgC6'),
        ([H], 'xpub68NZiKmJWnxxS6aaHmn81bvJeTESw724CRDs6HbuccFQN9Ku14VQrADWgqbhhTHBaohPX4CjNLf9fq9MYo6oDaPPLPxSb7gwQN3ih19Zm4Y',
         'xprv9uPDJpEQgRQfDcW7BkF7eTya6RPxXeJCqCJGHuCJ4GiRVLzkTXBAJMu2qaMWPrS7AANYqdq6vcBcBUdJCVVFceUvJFjaPdGZ2y9WACViL4L'),
    ]),
    ('3ddd5602285899a946114506157c7997e5444528f3003f6134712147db19b678', [
        ([], 'xpub661MyMwAqRbcGczjuMoRm6dXaLDEhW1u34gKenbeYqAix21mdUKJyuyu5F1rzYGVxyL6tmgBUAEPrEz92mBXjByMRiJdba9wpnN37RLLAXa',
         'xprv9s21ZrQH143K48vGoLGRPxgo2JNkJ3J3fqkirQC2zVdk5Dgd5w14S7fRDyHH4dWNHUgkvsvNDCkvAwcSHNAQwhwgNMgZhLtQC63zxwhQmRv'),
        ([H], 'xpub69AUMk3qDBi3uW1sXgjCmVjJ2G6WQoYSnNHyzkmdCHEhSZ4tBok37xfFEqHd2AddP56Tqp4o56AePAgCjYdvpW2PU2jbUPFKsav5ut6Ch1m',
         'xprv9vB7xEWwNp9kh1wQRfCCQMnZUEG21LpbR9NPCNN1dwhiZkjjeGRnaALmPXCX7SgjFTiCTT6bXes17boXtjq3xLpcDjzEuGLQBM5ohqkao9G'),
        ([H, 1 + H], 'xpub6BJA1jSqiukeaesWfxe6sNK9CCGaujFFSJLomWHprUL9DePQ4JDkM5d88n49sMGJxrhpjazuXYWdMf17C9T5XnxkopaeS7jGk1GyyVziaMt',
         'xprv9xJocDuwtYCMNAo3Zw76WENQeAS6WGXQ55RCy7tDJ8oALr4FWkuVoHJeHVAcAqiZLE7Je3vZJHxspZdFHfnBEjHqU5hG1Jaj32dVoS6XLT1'),
    ]),
]


def selftest():
    for seed, rows in VECTORS:
        m = master(bytes.fromhex(seed))
        for path, xpub, xprv in rows:
            k = derive(m, path)
            assert k.ser(XPRV, True) == xprv, (seed[:8], path)
            assert k.ser(XPUB, False) == xpub, (seed[:8], path)
            v, kk, priv = parse_xkey(xprv)
            assert priv and kk.secret == k.secret and kk.chain == k.chain and kk.depth == k.depth
        # public derivation commutes on the non-hardened tail
        k = derive(m, [H]) if True else None
        a = derive(k, [3, 5]).neuter()
        b = derive(k.neuter(), [3, 5])
        assert a.point == b.point and a.chain == b.chain and a.parent_fp == b.parent_fp
