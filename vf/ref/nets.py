"""Golden network table pinned in /verif (NOT read from the library's networks.json at run time).

networks_golden.json is a copy of bitcoinlib/data/networks.json at the pinned commit; the values
for bitcoin / testnet / litecoin / dogecoin are cross-checked below against the published
constants (chainparams of the respective node software, SLIP-132), so an edit to the library's
table is visible as a deviation.
"""
import json
import os

with open(os.path.join(os.path.dirname(__file__), 'networks_golden.json')) as _f:
    NETS = json.load(_f)

NAMES = list(NETS)


def p2pkh_ver(net):
    return bytes.fromhex(NETS[net]['prefix_address'])


def p2sh_ver(net):
    return bytes.fromhex(NETS[net]['prefix_address_p2sh'])


def hrp(net):
    return NETS[net]['prefix_bech32']


def wif_ver(net):
    return bytes.fromhex(NETS[net]['prefix_wif'])


def hd_prefix(net, is_private, witness_type='legacy', multisig=False):
    """4 version bytes of an extended key, or None if the network has none for the combination."""
    for hx, _txt, kind, ms, wt, _st in NETS[net]['prefixes_wif']:
        if kind == ('private' if is_private else 'public') and ms == multisig and wt == witness_type:
            return bytes.fromhex(hx)
    return None


def hd_candidates(ver4):
    """All (network, is_private, witness_type, multisig) sharing these version bytes."""
    out = []
    for net, d in NETS.items():
        for hx, _txt, kind, ms, wt, _st in d['prefixes_wif']:
            if bytes.fromhex(hx) == ver4:
                out.append((net, kind == 'private', wt, ms))
    return out


def selftest():
    pub = {
        'bitcoin': ('00', '05', 'bc', '80', '0488B21E', '0488ADE4', 0),
        'testnet': ('6F', 'C4', 'tb', 'EF', '043587CF', '04358394', 1),
        'litecoin': ('30', '32', 'ltc', 'B0', '019DA462', '019D9CFE', 2),
        'dogecoin': ('1E', '16', None, '9E', None, None, 3),
    }
    for n, (a, s, h, w, xpub, xprv, coin) in pub.items():
        d = NETS[n]
        assert d['prefix_address'] == a and d['prefix_address_p2sh'] == s and d['prefix_wif'] == w
        assert d['bip44_cointype'] == coin
        if h:
            assert d['prefix_bech32'] == h
        if xpub:
            assert hd_prefix(n, False).hex().upper() == xpub and hd_prefix(n, True).hex().upper() == xprv
    # SLIP-132
    assert hd_prefix('bitcoin', False, 'p2sh-segwit').hex() == '049d7cb2'
    assert hd_prefix('bitcoin', True, 'p2sh-segwit').hex() == '049d7878'
    assert hd_prefix('bitcoin', False, 'segwit').hex() == '04b24746'
    assert hd_prefix('bitcoin', True, 'segwit').hex() == '04b2430c'
    assert hd_prefix('bitcoin', False, 'segwit', True).hex() == '02aa7ed3'
    assert hd_prefix('bitcoin', False, 'p2sh-segwit', True).hex() == '0295b43f'
    assert hd_prefix('testnet', False, 'segwit').hex() == '045f1cf6'
    assert hd_prefix('testnet', False, 'p2sh-segwit').hex() == '044a5262'
    assert len(NAMES) == 11
