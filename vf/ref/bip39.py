"""BIP39 reference (from the specification). Word lists are data pinned under ref/wordlists."""
import hashlib
import json
import os
import unicodedata

_D = os.path.dirname(__file__)
LANGS = ['chinese_simplified', 'chinese_traditional', 'dutch', 'english', 'french', 'italian', 'japanese',
         'portuguese', 'spanish']
_WL = {}


def wordlist(lang):
    if lang not in _WL:
        with open(os.path.join(_D, 'wordlists', lang + '.txt'), encoding='utf8') as f:
            w = [x.strip() for x in f.readlines()]
        w = [x for x in w if x]
        assert len(w) == 2048, (lang, len(w))
        _WL[lang] = w
    return _WL[lang]


def to_words(entropy, lang='english'):
    assert len(entropy) in (16, 20, 24, 28, 32)
    cs = len(entropy) // 4
    bits = bin(int.from_bytes(entropy, 'big'))[2:].zfill(len(entropy) * 8)
    bits += bin(hashlib.sha256(entropy).digest()[0])[2:].zfill(8)[:cs]
    wl = wordlist(lang)
    return [wl[int(bits[i:i + 11], 2)] for i in range(0, len(bits), 11)]


def to_entropy(words, lang='english'):
    """entropy bytes, or None when a word is unknown, the length is wrong or the checksum fails."""
    wl = wordlist(lang)
    idx = {w: i for i, w in enumerate(wl)}
    if len(words) not in (12, 15, 18, 21, 24):
        return None
    try:
        bits = ''.join(bin(idx[w])[2:].zfill(11) for w in words)
    except KeyError:
        return None
    cs = len(words) // 3
    ent = int(bits[:-cs], 2).to_bytes((len(bits) - cs) // 8, 'big')
    chk = bin(hashlib.sha256(ent).digest()[0])[2:].zfill(8)[:cs]
    if chk != bits[-cs:]:
        return None
    return ent


def seed(sentence, passphrase=''):
    s = unicodedata.normalize('NFKD', sentence)
    p = unicodedata.normalize('NFKD', passphrase)
    return hashlib.pbkdf2_hmac('sha512', s.encode('utf8'), ('mnemonic' + p).encode('utf8'), 2048, 64)


def selftest():
    with open(os.path.join(_D, 'vectors', 'mnemonics_tests.json')) as f:
        vec = json.load(f)['english']
    assert len(vec) >= 24
    for v in vec:
        ent, words, sd = v[0], v[1], v[2]
        pw = v[4] if len(v) > 4 else 'TREZOR'
        if len(ent) // 2 not in (16, 20, 24, 28, 32):
            continue
        assert ' '.join(to_words(bytes.fromhex(ent))) == words
        assert to_entropy(words.split(' ')) == bytes.fromhex(ent)
        assert seed(words, pw).hex() == sd
    # Japanese vector (bip39 test_JP.json #1)
    jw = ' '.join(to_words(bytes(16), 'japanese'))
    js = '　'.join(to_words(bytes(16), 'japanese'))
    assert unicodedata.normalize('NFKD', jw).endswith(unicodedata.normalize('NFKD', 'あおぞら'))
    pw = '㍍ガバヴァぱばぐゞちぢ十人十色'
    assert seed(js, pw).hex() == ('a262d6fb6122ecf45be09c50492b31f92e9beb7d9a845987a02cefda57a15f9c467a1787'
                                  '2029a9e92299b5cbdf306e3a0ee620245cbd508959b6cb7ca637bd55')
    assert to_entropy('abandon abandon abandon abandon abandon abandon abandon abandon abandon abandon abandon abandon'.split()) is None
    for l in LANGS:
        wordlist(l)
