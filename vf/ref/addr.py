"""Standard locking scripts and address encodings."""
from . import nets
from .codec import b58check_encode, b58check_decode, segwit_encode, segwit_decode, hash160, sha256


def spk_p2pkh(h):
    return b'\x76\xa9\x14' + h + b'\x88\xac'


def spk_p2sh(h):
    return b'\xa9\x14' + h + b'\x87'


def spk_witness(ver, prog):
    return bytes([0x50 + ver if ver else 0, len(prog)]) + prog


def spk_p2pk(pub):
    return bytes([len(pub)]) + pub + b'\xac'


def addr_p2pkh(net, h):
    return b58check_encode(nets.p2pkh_ver(net) + h)


def addr_p2sh(net, h):
    return b58check_encode(nets.p2sh_ver(net) + h)


def addr_witness(net, ver, prog):
    return segwit_encode(nets.hrp(net), ver, prog)


def key_addresses(net, pubkey_bytes):
    """All standard single-key address forms for a serialized public key."""
    h = hash160(pubkey_bytes)
    redeem = b'\x00\x14' + h
    return {
        'p2pkh': addr_p2pkh(net, h),
        'p2sh_p2wpkh': addr_p2sh(net, hash160(redeem)),
        'p2wpkh': addr_witness(net, 0, h),
    }


def multisig_script(m, pubkeys):
    from .codec import push
    assert 1 <= m <= len(pubkeys) <= 16
    return bytes([0x50 + m]) + b''.join(push(p) for p in pubkeys) + bytes([0x50 + len(pubkeys)]) + b'\xae'


def decode_address(addr):
    """List of (network, kind, payload, witver) interpretations under the golden table, [] if invalid."""
    out = []
    p = b58check_decode(addr) if isinstance(addr, str) else None
    if p is not None and len(p) == 21:
        for n in nets.NAMES:
            if p[:1] == nets.p2pkh_ver(n):
                out.append((n, 'p2pkh', p[1:], None))
            if p[:1] == nets.p2sh_ver(n):
                out.append((n, 'p2sh', p[1:], None))
    d = segwit_decode(addr) if isinstance(addr, str) else None
    if d is not None:
        hrp, ver, prog = d
        for n in nets.NAMES:
            if nets.hrp(n) == hrp:
                kind = {(0, 20): 'p2wpkh', (0, 32): 'p2wsh', (1, 32): 'p2tr'}.get((ver, len(prog)), 'witness_unknown')
                out.append((n, kind, prog, ver))
    return out


def selftest():
    from . import secp
    P = secp.ser(secp.pub(1))
    a = key_addresses('bitcoin', P)
    assert a['p2pkh'] == '1BgGZ9tcN4rm9KBzDn7KprQz87SZ26SAMH'
    assert a['p2wpkh'] == 'bc1qw508d6qejxtdg4y5r3zarvary0c5xw7kv8f3t4'
    assert a['p2sh_p2wpkh'] == '3JvL6Ymt8MVWiCNHC7oWU6nLeHNJKLZGLN'
    assert key_addresses('bitcoin', secp.ser(secp.pub(1), False))['p2pkh'] == '1EHNa6Q4Jz2uvNExL497mE43ikXhwF6kZm'
    assert [x[:2] for x in decode_address('1BgGZ9tcN4rm9KBzDn7KprQz87SZ26SAMH')] == [('bitcoin', 'p2pkh'), ('regtest', 'p2pkh')]
