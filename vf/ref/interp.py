"""Consensus script interpreter (semantics of Bitcoin Core script/interpreter.cpp).

Consensus flags only: P2SH, DERSIG (BIP66), NULLDUMMY (BIP147), CLTV (BIP65), CSV (BIP112),
WITNESS (BIP141/143, versions 0; higher versions are anyone-can-spend at this layer except v1
taproot which is outside the scope here and reported as 'unsupported').
No policy flags (MINIMALDATA, LOW_S, CLEANSTACK for legacy, STRICTENC ...).
"""
import hashlib

from . import secp
from .codec import script_tokens, num_decode, num_encode, cast_to_bool, sha256, dsha256, ripemd160, \
    hash160, push
from .tx import sighash_legacy, sighash_bip143

F_P2SH, F_DERSIG, F_NULLDUMMY, F_CLTV, F_CSV, F_WITNESS = 'P2SH', 'DERSIG', 'NULLDUMMY', 'CLTV', 'CSV', 'WITNESS'
CONSENSUS = frozenset([F_P2SH, F_DERSIG, F_NULLDUMMY, F_CLTV, F_CSV, F_WITNESS])

MAX_ELEM = 520
MAX_OPS = 201
MAX_STACK = 1000
MAX_SCRIPT = 10000

OP = dict(
    OP_0=0, PUSHDATA1=0x4c, PUSHDATA2=0x4d, PUSHDATA4=0x4e, NEG1=0x4f, RESERVED=0x50, OP_1=0x51, OP_16=0x60,
    NOP=0x61, VER=0x62, IF=0x63, NOTIF=0x64, VERIF=0x65, VERNOTIF=0x66, ELSE=0x67, ENDIF=0x68, VERIFY=0x69,
    RETURN=0x6a, TOALT=0x6b, FROMALT=0x6c, DROP2=0x6d, DUP2=0x6e, DUP3=0x6f, OVER2=0x70, ROT2=0x71, SWAP2=0x72,
    IFDUP=0x73, DEPTH=0x74, DROP=0x75, DUP=0x76, NIP=0x77, OVER=0x78, PICK=0x79, ROLL=0x7a, ROT=0x7b, SWAP=0x7c,
    TUCK=0x7d, CAT=0x7e, SUBSTR=0x7f, LEFT=0x80, RIGHT=0x81, SIZE=0x82, INVERT=0x83, AND=0x84, OR=0x85,
    XOR=0x86, EQUAL=0x87, EQUALVERIFY=0x88, RESERVED1=0x89, RESERVED2=0x8a, ADD1=0x8b, SUB1=0x8c, MUL2=0x8d,
    DIV2=0x8e, NEGATE=0x8f, ABS=0x90, NOT=0x91, NOTEQUAL0=0x92, ADD=0x93, SUB=0x94, MUL=0x95, DIV=0x96,
    MOD=0x97, LSHIFT=0x98, RSHIFT=0x99, BOOLAND=0x9a, BOOLOR=0x9b, NUMEQUAL=0x9c, NUMEQUALVERIFY=0x9d,
    NUMNOTEQUAL=0x9e, LESSTHAN=0x9f, GREATERTHAN=0xa0, LESSTHANOREQUAL=0xa1, GREATERTHANOREQUAL=0xa2,
    MIN=0xa3, MAX=0xa4, WITHIN=0xa5, RIPEMD160=0xa6, SHA1=0xa7, SHA256=0xa8, HASH160=0xa9, HASH256=0xaa,
    CODESEPARATOR=0xab, CHECKSIG=0xac, CHECKSIGVERIFY=0xad, CHECKMULTISIG=0xae, CHECKMULTISIGVERIFY=0xaf,
    NOP1=0xb0, CLTV=0xb1, CSV=0xb2, NOP4=0xb3, NOP10=0xb9)

DISABLED = {0x7e, 0x7f, 0x80, 0x81, 0x83, 0x84, 0x85, 0x86, 0x8d, 0x8e, 0x95, 0x96, 0x97, 0x98, 0x99}


class ScriptError(Exception):
    pass


def _num(b, maxlen=4):
    if len(b) > maxlen:
        raise ScriptError('num overflow')
    return num_decode(b)


def decode_pub_lax(b):
    """Public key parsing as libsecp256k1 does without STRICTENC: compressed, uncompressed, hybrid."""
    pt = secp.decode_pub(b)
    if pt is not None:
        return pt
    if len(b) == 65 and b[0] in (6, 7):
        pt = (int.from_bytes(b[1:33], 'big'), int.from_bytes(b[33:], 'big'))
        if secp.on_curve(pt) and (pt[1] & 1) == (b[0] & 1):
            return pt
    return None


def der_decode_lax(sig):
    """Loose DER parsing in the spirit of ecdsa_signature_parse_der_lax (used when DERSIG is not set)."""
    try:
        if len(sig) < 2 or sig[0] != 0x30:
            return None
        p = 1
        l = sig[p]
        p += 1
        if l & 0x80:
            p += l & 0x7f
        out = []
        for _ in range(2):
            if sig[p] != 0x02:
                return None
            p += 1
            l = sig[p]
            p += 1
            if l & 0x80:
                nb = l & 0x7f
                l = int.from_bytes(sig[p:p + nb], 'big')
                p += nb
            if p + l > len(sig):
                return None
            out.append(int.from_bytes(sig[p:p + l], 'big'))
            p += l
        return out[0], out[1]
    except IndexError:
        return None


class TxChecker:
    """Signature / locktime checker bound to one input of a reference transaction."""

    def __init__(self, tx, idx, amount, flags=CONSENSUS):
        self.tx = tx
        self.idx = idx
        self.amount = amount
        self.flags = flags
        self.digests = []

    def check_sig(self, sig, pubkey, script_code, sigversion):
        if not sig:
            return False
        hashtype = sig[-1]
        der = sig[:-1]
        rs = secp.der_decode_strict(der) if F_DERSIG in self.flags else der_decode_lax(der)
        if rs is None:
            return False
        pt = decode_pub_lax(pubkey)
        if pt is None:
            return False
        if sigversion == 'witness_v0':
            h = sighash_bip143(self.tx, self.idx, script_code, self.amount, hashtype)
        else:
            h = sighash_legacy(self.tx, self.idx, script_code, hashtype)
        self.digests.append(h)
        r, s = rs
        return secp.ecdsa_verify(int.from_bytes(h, 'big'), r, s, pt)

    def check_locktime(self, n):
        tx = self.tx
        if not ((tx.locktime < 500000000 and n < 500000000) or (tx.locktime >= 500000000 and n >= 500000000)):
            return False
        if n > tx.locktime:
            return False
        if tx.vin[self.idx]['seq'] == 0xffffffff:
            return False
        return True

    def check_sequence(self, n):
        tx = self.tx
        seq = tx.vin[self.idx]['seq']
        if tx.version < 2:
            return False
        if seq & (1 << 31):
            return False
        mask = (1 << 22) | 0xffff
        a = seq & mask
        b = n & mask
        if not ((a < (1 << 22) and b < (1 << 22)) or (a >= (1 << 22) and b >= (1 << 22))):
            return False
        if b > a:
            return False
        return True


class NullChecker:
    flags = CONSENSUS

    def check_sig(self, sig, pubkey, script_code, sigversion):
        return False

    def check_locktime(self, n):
        return False

    def check_sequence(self, n):
        return False


class FixedDigestChecker:
    """Checker verifying signatures over one given 32-byte message (for stack-level comparisons)."""

    def __init__(self, digest, flags=CONSENSUS, locktime_ok=None, sequence_ok=None):
        self.digest = digest
        self.flags = flags
        self.locktime_ok = locktime_ok
        self.sequence_ok = sequence_ok

    def check_sig(self, sig, pubkey, script_code, sigversion):
        if not sig:
            return False
        rs = secp.der_decode_strict(sig[:-1]) if F_DERSIG in self.flags else der_decode_lax(sig[:-1])
        pt = decode_pub_lax(pubkey)
        if rs is None or pt is None:
            return False
        return secp.ecdsa_verify(int.from_bytes(self.digest, 'big'), rs[0], rs[1], pt)

    def check_locktime(self, n):
        return bool(self.locktime_ok(n)) if self.locktime_ok else False

    def check_sequence(self, n):
        return bool(self.sequence_ok(n)) if self.sequence_ok else False


def _check_sig_encoding(sig, flags):
    if not sig:
        return
    if F_DERSIG in flags and not secp.is_strict_der(sig[:-1]):
        raise ScriptError('sig der')


def _find_and_delete(script, sig):
    """FindAndDelete(scriptCode, CScript() << sig) for legacy sigversion."""
    if not sig:
        return script
    pat = push(sig)
    out = b''
    i = 0
    n = len(script)
    # walk opcode by opcode, dropping occurrences of pat that start at an opcode boundary
    while i < n:
        while script[i:i + len(pat)] == pat:
            i += len(pat)
        if i >= n:
            break
        op = script[i]
        start = i
        i += 1
        if 1 <= op < 0x4c:
            i += op
        elif op == 0x4c and i < n:
            i += 1 + script[i]
        elif op == 0x4d and i + 1 < n:
            i += 2 + int.from_bytes(script[i:i + 2], 'little')
        elif op == 0x4e and i + 3 < n:
            i += 4 + int.from_bytes(script[i:i + 4], 'little')
        out += script[start:i]
    return out


def eval_script(stack, script, checker, sigversion='base'):
    """Executes script on stack (list of bytes, modified in place). Raises ScriptError on failure."""
    flags = checker.flags
    if len(script) > MAX_SCRIPT:
        raise ScriptError('script size')
    try:
        toks = script_tokens(script)
    except ValueError:
        toks = None
    # Core parses opcode by opcode and fails at the bad opcode; execution before it still has to succeed.
    # We pre-tokenise; for a truncated script tokenise the valid prefix and fail when reaching the end.
    truncated = False
    if toks is None:
        truncated = True
        toks = _tokens_prefix(script)
    # byte offsets for OP_CODESEPARATOR handling
    offsets = _offsets(script, len(toks))
    alt = []
    vf_exec = []
    nops = 0
    begincode = 0
    for ti, (op, data) in enumerate(toks):
        fexec = all(vf_exec)
        if data is not None and len(data) > MAX_ELEM:
            raise ScriptError('push size')
        if op > 0x60:
            nops += 1
            if nops > MAX_OPS:
                raise ScriptError('op count')
        if op in DISABLED:
            raise ScriptError('disabled')
        if fexec and data is not None:
            stack.append(bytes(data))
        elif fexec or (0x63 <= op <= 0x68):
            if op == 0x4f:
                stack.append(b'\x81')
            elif 0x51 <= op <= 0x60:
                stack.append(num_encode(op - 0x50))
            elif op == 0x61:
                pass
            elif op == 0xb1:  # CLTV
                if F_CLTV in flags:
                    if len(stack) < 1:
                        raise ScriptError('stack')
                    n = _num(stack[-1], 5)
                    if n < 0:
                        raise ScriptError('negative locktime')
                    if not checker.check_locktime(n):
                        raise ScriptError('unsatisfied locktime')
            elif op == 0xb2:  # CSV
                if F_CSV in flags:
                    if len(stack) < 1:
                        raise ScriptError('stack')
                    n = _num(stack[-1], 5)
                    if n < 0:
                        raise ScriptError('negative locktime')
                    if not (n & (1 << 31)):
                        if not checker.check_sequence(n):
                            raise ScriptError('unsatisfied sequence')
            elif op in (0xb0, 0xb3, 0xb4, 0xb5, 0xb6, 0xb7, 0xb8, 0xb9):
                pass
            elif op in (0x63, 0x64):
                val = False
                if fexec:
                    if len(stack) < 1:
                        raise ScriptError('unbalanced conditional')
                    val = cast_to_bool(stack.pop())
                    if op == 0x64:
                        val = not val
                vf_exec.append(val)
            elif op == 0x67:
                if not vf_exec:
                    raise ScriptError('unbalanced conditional')
                vf_exec[-1] = not vf_exec[-1]
            elif op == 0x68:
                if not vf_exec:
                    raise ScriptError('unbalanced conditional')
                vf_exec.pop()
            elif op == 0x69:
                if len(stack) < 1:
                    raise ScriptError('stack')
                if not cast_to_bool(stack[-1]):
                    raise ScriptError('verify')
                stack.pop()
            elif op == 0x6a:
                raise ScriptError('op_return')
            elif op == 0x6b:
                if len(stack) < 1:
                    raise ScriptError('stack')
                alt.append(stack.pop())
            elif op == 0x6c:
                if len(alt) < 1:
                    raise ScriptError('altstack')
                stack.append(alt.pop())
            elif op == 0x6d:
                if len(stack) < 2:
                    raise ScriptError('stack')
                stack.pop()
                stack.pop()
            elif op == 0x6e:
                if len(stack) < 2:
                    raise ScriptError('stack')
                stack.extend(stack[-2:])
            elif op == 0x6f:
                if len(stack) < 3:
                    raise ScriptError('stack')
                stack.extend(stack[-3:])
            elif op == 0x70:
                if len(stack) < 4:
                    raise ScriptError('stack')
                stack.extend(stack[-4:-2])
            elif op == 0x71:
                if len(stack) < 6:
                    raise ScriptError('stack')
                a = stack[-6:-4]
                del stack[-6:-4]
                stack.extend(a)
            elif op == 0x72:
                if len(stack) < 4:
                    raise ScriptError('stack')
                stack[-4:] = stack[-2:] + stack[-4:-2]
            elif op == 0x73:
                if len(stack) < 1:
                    raise ScriptError('stack')
                if cast_to_bool(stack[-1]):
                    stack.append(stack[-1])
            elif op == 0x74:
                stack.append(num_encode(len(stack)))
            elif op == 0x75:
                if len(stack) < 1:
                    raise ScriptError('stack')
                stack.pop()
            elif op == 0x76:
                if len(stack) < 1:
                    raise ScriptError('stack')
                stack.append(stack[-1])
            elif op == 0x77:
                if len(stack) < 2:
                    raise ScriptError('stack')
                del stack[-2]
            elif op == 0x78:
                if len(stack) < 2:
                    raise ScriptError('stack')
                stack.append(stack[-2])
            elif op in (0x79, 0x7a):
                if len(stack) < 2:
                    raise ScriptError('stack')
                n = _num(stack.pop())
                if n < 0 or n >= len(stack):
                    raise ScriptError('stack')
                v = stack[-n - 1]
                if op == 0x7a:
                    del stack[-n - 1]
                stack.append(v)
            elif op == 0x7b:
                if len(stack) < 3:
                    raise ScriptError('stack')
                stack.append(stack.pop(-3))
            elif op == 0x7c:
                if len(stack) < 2:
                    raise ScriptError('stack')
                stack[-2], stack[-1] = stack[-1], stack[-2]
            elif op == 0x7d:
                if len(stack) < 2:
                    raise ScriptError('stack')
                stack.insert(-2, stack[-1])
            elif op == 0x82:
                if len(stack) < 1:
                    raise ScriptError('stack')
                stack.append(num_encode(len(stack[-1])))
            elif op in (0x87, 0x88):
                if len(stack) < 2:
                    raise ScriptError('stack')
                b = stack.pop()
                a = stack.pop()
                eq = a == b
                stack.append(b'\x01' if eq else b'')
                if op == 0x88:
                    if not eq:
                        raise ScriptError('equalverify')
                    stack.pop()
            elif op in (0x8b, 0x8c, 0x8f, 0x90, 0x91, 0x92):
                if len(stack) < 1:
                    raise ScriptError('stack')
                n = _num(stack.pop())
                if op == 0x8b:
                    n += 1
                elif op == 0x8c:
                    n -= 1
                elif op == 0x8f:
                    n = -n
                elif op == 0x90:
                    n = abs(n)
                elif op == 0x91:
                    n = int(n == 0)
                else:
                    n = int(n != 0)
                stack.append(num_encode(n))
            elif op in (0x93, 0x94, 0x9a, 0x9b, 0x9c, 0x9d, 0x9e, 0x9f, 0xa0, 0xa1, 0xa2, 0xa3, 0xa4):
                if len(stack) < 2:
                    raise ScriptError('stack')
                b = _num(stack[-1])
                a = _num(stack[-2])
                stack.pop()
                stack.pop()
                if op == 0x93:
                    r = a + b
                elif op == 0x94:
                    r = a - b
                elif op == 0x9a:
                    r = int(a != 0 and b != 0)
                elif op == 0x9b:
                    r = int(a != 0 or b != 0)
                elif op in (0x9c, 0x9d):
                    r = int(a == b)
                elif op == 0x9e:
                    r = int(a != b)
                elif op == 0x9f:
                    r = int(a < b)
                elif op == 0xa0:
                    r = int(a > b)
                elif op == 0xa1:
                    r = int(a <= b)
                elif op == 0xa2:
                    r = int(a >= b)
                elif op == 0xa3:
                    r = min(a, b)
                else:
                    r = max(a, b)
                stack.append(num_encode(r))
                if op == 0x9d:
                    if not cast_to_bool(stack[-1]):
                        raise ScriptError('numequalverify')
                    stack.pop()
            elif op == 0xa5:
                if len(stack) < 3:
                    raise ScriptError('stack')
                x = _num(stack[-3])
                mn = _num(stack[-2])
                mx = _num(stack[-1])
                del stack[-3:]
                stack.append(b'\x01' if mn <= x < mx else b'')
            elif op in (0xa6, 0xa7, 0xa8, 0xa9, 0xaa):
                if len(stack) < 1:
                    raise ScriptError('stack')
                v = stack.pop()
                if op == 0xa6:
                    h = ripemd160(v)
                elif op == 0xa7:
                    h = hashlib.sha1(v).digest()
                elif op == 0xa8:
                    h = sha256(v)
                elif op == 0xa9:
                    h = hash160(v)
                else:
                    h = dsha256(v)
                stack.append(h)
            elif op == 0xab:
                begincode = offsets[ti + 1]
            elif op in (0xac, 0xad):
                if len(stack) < 2:
                    raise ScriptError('stack')
                sig = stack[-2]
                pk = stack[-1]
                code = script[begincode:]
                if sigversion == 'base':
                    code = _find_and_delete(code, sig)
                _check_sig_encoding(sig, flags)
                ok = checker.check_sig(sig, pk, code, sigversion)
                stack.pop()
                stack.pop()
                stack.append(b'\x01' if ok else b'')
                if op == 0xad:
                    if not ok:
                        raise ScriptError('checksigverify')
                    stack.pop()
            elif op in (0xae, 0xaf):
                i = 1
                if len(stack) < i:
                    raise ScriptError('stack')
                nkeys = _num(stack[-i])
                if nkeys < 0 or nkeys > 20:
                    raise ScriptError('pubkey count')
                nops += nkeys
                if nops > MAX_OPS:
                    raise ScriptError('op count')
                i += 1
                ikey = i
                i += nkeys
                if len(stack) < i:
                    raise ScriptError('stack')
                nsigs = _num(stack[-i])
                if nsigs < 0 or nsigs > nkeys:
                    raise ScriptError('sig count')
                i += 1
                isig = i
                i += nsigs
                if len(stack) < i:
                    raise ScriptError('stack')
                code = script[begincode:]
                if sigversion == 'base':
                    for k in range(nsigs):
                        code = _find_and_delete(code, stack[-isig - k])
                ok = True
                ks, ss = nkeys, nsigs
                while ok and ss > 0:
                    sig = stack[-isig]
                    pk = stack[-ikey]
                    _check_sig_encoding(sig, flags)
                    if checker.check_sig(sig, pk, code, sigversion):
                        isig += 1
                        ss -= 1
                    ikey += 1
                    ks -= 1
                    if ss > ks:
                        ok = False
                while i > 1:
                    i -= 1
                    stack.pop()
                if len(stack) < 1:
                    raise ScriptError('stack')
                if F_NULLDUMMY in flags and len(stack[-1]):
                    raise ScriptError('nulldummy')
                stack.pop()
                stack.append(b'\x01' if ok else b'')
                if op == 0xaf:
                    if not ok:
                        raise ScriptError('checkmultisigverify')
                    stack.pop()
            else:
                raise ScriptError('bad opcode 0x%02x' % op)
        if len(stack) + len(alt) > MAX_STACK:
            raise ScriptError('stack size')
    if truncated:
        raise ScriptError('bad opcode (truncated push)')
    if vf_exec:
        raise ScriptError('unbalanced conditional')


def _tokens_prefix(script):
    out = []
    i = 0
    n = len(script)
    while i < n:
        op = script[i]
        j = i + 1
        if 1 <= op <= 0x4e:
            if op < 0x4c:
                ln = op
            else:
                w = {0x4c: 1, 0x4d: 2, 0x4e: 4}[op]
                if j + w > n:
                    break
                ln = int.from_bytes(script[j:j + w], 'little')
                j += w
            if j + ln > n:
                break
            out.append((op, script[j:j + ln]))
            j += ln
        elif op == 0:
            out.append((0, b''))
        else:
            out.append((op, None))
        i = j
    return out


def _offsets(script, ntok):
    offs = [0]
    i = 0
    n = len(script)
    while i < n and len(offs) <= ntok:
        op = script[i]
        i += 1
        if 1 <= op < 0x4c:
            i += op
        elif op == 0x4c:
            i += 1 + script[i]
        elif op == 0x4d:
            i += 2 + int.from_bytes(script[i:i + 2], 'little')
        elif op == 0x4e:
            i += 4 + int.from_bytes(script[i:i + 4], 'little')
        offs.append(i)
    return offs


def is_push_only(script):
    try:
        return all(op <= 0x60 for op, _ in script_tokens(script))
    except ValueError:
        return False


def is_p2sh(spk):
    return len(spk) == 23 and spk[0] == 0xa9 and spk[1] == 0x14 and spk[22] == 0x87


def witness_program(spk):
    if len(spk) < 4 or len(spk) > 42:
        return None
    if spk[0] != 0 and not (0x51 <= spk[0] <= 0x60):
        return None
    if spk[1] + 2 != len(spk):
        return None
    return (spk[0] - 0x50 if spk[0] else 0), spk[2:]


def _verify_witness(witness, ver, prog, checker):
    if ver == 0:
        if len(prog) == 32:
            if not witness:
                raise ScriptError('witness program witness empty')
            ws = witness[-1]
            st = list(witness[:-1])
            if sha256(ws) != prog:
                raise ScriptError('witness program mismatch')
        elif len(prog) == 20:
            if len(witness) != 2:
                raise ScriptError('witness program mismatch')
            ws = b'\x76\xa9\x14' + prog + b'\x88\xac'
            st = list(witness)
        else:
            raise ScriptError('witness program wrong length')
        for e in st:
            if len(e) > MAX_ELEM:
                raise ScriptError('push size')
        eval_script(st, ws, checker, 'witness_v0')
        if len(st) != 1:
            raise ScriptError('cleanstack')
        if not cast_to_bool(st[-1]):
            raise ScriptError('eval false')
        return
    if ver == 1 and len(prog) == 32:
        raise NotImplementedError('taproot outside the reference interpreter')
    return  # future versions: anyone can spend


def verify_script(script_sig, spk, witness, checker):
    """True iff the spend is valid under the consensus flags of checker. witness: list of bytes."""
    flags = checker.flags
    witness = witness or []
    try:
        stack = []
        eval_script(stack, script_sig, checker, 'base')
        stack_copy = list(stack)
        eval_script(stack, spk, checker, 'base')
        if not stack or not cast_to_bool(stack[-1]):
            return False
        had_witness = False
        if F_WITNESS in flags:
            wp = witness_program(spk)
            if wp is not None:
                had_witness = True
                if script_sig:
                    return False
                _verify_witness(witness, wp[0], wp[1], checker)
                stack = [b'\x01']
        if F_P2SH in flags and is_p2sh(spk):
            if not is_push_only(script_sig):
                return False
            stack = stack_copy
            if not stack:
                return False
            redeem = stack.pop()
            eval_script(stack, redeem, checker, 'base')
            if not stack or not cast_to_bool(stack[-1]):
                return False
            if F_WITNESS in flags:
                wp = witness_program(redeem)
                if wp is not None:
                    had_witness = True
                    if script_sig != push(redeem):
                        return False
                    _verify_witness(witness, wp[0], wp[1], checker)
                    stack = [b'\x01']
        if F_WITNESS in flags and not had_witness and witness:
            return False
        return True
    except ScriptError:
        return False


def run(script, stack=None, checker=None):
    """(ok, final_stack, error) for a bare script evaluation on an initial stack."""
    st = list(stack or [])
    try:
        eval_script(st, script, checker or NullChecker(), 'base')
    except ScriptError as e:
        return False, st, str(e)
    return True, st, None


def selftest():
    # hand-selected cases in the style of Core's script_tests.json: (scriptSig, scriptPubKey, expected)
    def b(h):
        return bytes.fromhex(h)
    T = [
        ('51', '51', True), ('', '51', True), ('00', '51', True), ('51', '00', False),
        ('5152', '935387', True),              # 1 2 ADD 3 EQUAL
        ('5253', '9451' '8f' '87', True),                               # 2 3 SUB -> -1 ; 1 NEGATE ; EQUAL
        ('5352', '945187', True),                                       # 3 2 SUB = 1
        ('5152', '9f', True), ('5251', '9f', False),                    # LESSTHAN
        ('5251', 'a0', True),                                           # 2 1 GREATERTHAN
        ('515153', 'a5', True), ('535153', 'a5', False), ('515151', 'a5', False),   # x min max WITHIN
        ('5152', '7d' '74' '53' '87' '69' '52' '87' '69' '51' '87' '69' '52' '87', True),  # TUCK: 2 1 2
        ('515253', '52' '79' '51' '87', True),                          # 1 2 3 ; 2 PICK -> 1
        ('515253', '52' '7a' '51' '87' '69' '53' '87' '69' '52' '87', True),   # 2 ROLL -> 2 3 1
        ('51525354', '72' '52' '87' '69' '51' '87' '69' '54' '87' '69' '53' '87', True),  # 2SWAP: 3 4 1 2
        ('00', '69', False), ('0100', '69', False), ('0180', '69', False), ('020080', '69', False),
        ('0100', '', False), ('0180', '', False), ('0181', '', True),
        ('0100', '00' '9c', True),                                       # [00] 0 NUMEQUAL
        ('0180', '00' '9c', True),
        ('51', '63' '51' '67' '00' '68', True), ('00', '63' '51' '67' '00' '68', False),
        ('00', '64' '51' '68', True), ('51', '63', False), ('51', '68', False), ('51', '67', False),
        ('5100', '63' '63' '51' '67' '00' '68' '67' '51' '68', True),   # outer false -> ELSE branch 1
        ('00', '63' '6a' '68' '51', True),                               # unexecuted OP_RETURN is fine
        ('51', '6a', False),
        ('51', '7e', False), ('00', '63' '7e' '68' '51', False),         # disabled even if unexecuted
        ('51', '65', False), ('00', '63' '65' '68' '51', False),         # VERIF always invalid... (see below)
        ('51', '50', False), ('00', '63' '50' '68' '51', True),          # RESERVED only when executed
        ('0b68656c6c6f20776f726c64', 'a8' '20' 'b94d27b9934d3e08a52e52d7da7dabfac484efe37a5380ee9088f7ace2efcde9' '87', True),
        ('050000000001' '51', '93', False),                              # 5-byte operand overflows
        ('04ffffff7f' '51', '93' '05' '0000008000' '87', True),          # result may be 5 bytes
        ('51', '82' '51' '87' '69' '51' '87', True),                     # SIZE keeps the element
        ('00', '82' '00' '87', True),
        ('5152', '6e' '74' '54' '87', True),                             # 2DUP depth 4
        ('515253', '7b' '51' '87', True),                                # ROT brings 1 on top
        ('51', '73' '74' '52' '87', True), ('00', '73' '74' '51' '87', True),   # IFDUP
    ]
    for ss, spk, exp in T:
        got = verify_script(b(ss), b(spk), [], NullChecker())
        assert got == exp, (ss, spk, exp, got)
    # a real mainnet P2PKH spend (tx 0437cd7f... spending f4184fc5 is P2PK; use the classic pizza-era vector instead):
    # self-made P2PKH / multisig spends are validated in the checks against secp.ecdsa_verify; here we
    # validate checksig plumbing with a freshly made signature.
    from .tx import RTx
    d = 0x1234567890abcdef1234567890abcdef
    P = secp.ser(secp.pub(d))
    spk = b'\x76\xa9\x14' + hash160(P) + b'\x88\xac'
    tx = RTx(2, [{'txid': bytes(range(32)), 'vout': 1, 'script': b'', 'seq': 0xfffffffe}],
             [{'value': 5000, 'script': spk}], 17)
    h = sighash_legacy(tx, 0, spk, 1)
    k = secp.rfc6979_k(d, h)
    r, s = secp.ecdsa_sign_raw(d, int.from_bytes(h, 'big'), k)
    sig = secp.der_encode(r, min(s, secp.N - s)) + b'\x01'
    ss = push(sig) + push(P)
    assert verify_script(ss, spk, [], TxChecker(tx, 0, 0))
    tx.vout[0]['value'] += 1
    assert not verify_script(ss, spk, [], TxChecker(tx, 0, 0))
    tx.vout[0]['value'] -= 1
    # P2WPKH
    wspk = b'\x00\x14' + hash160(P)
    h = sighash_bip143(tx, 0, spk, 7777, 1)
    r, s = secp.ecdsa_sign_raw(d, int.from_bytes(h, 'big'), secp.rfc6979_k(d, h))
    sig = secp.der_encode(r, min(s, secp.N - s)) + b'\x01'
    assert verify_script(b'', wspk, [sig, P], TxChecker(tx, 0, 7777))
    assert not verify_script(b'', wspk, [sig, P], TxChecker(tx, 0, 7778))
    # P2SH-P2WPKH
    pspk = b'\xa9\x14' + hash160(wspk) + b'\x87'
    assert verify_script(push(wspk), pspk, [sig, P], TxChecker(tx, 0, 7777))
    assert not verify_script(push(wspk), pspk, [], TxChecker(tx, 0, 7777))
    # 2-of-3 multisig, P2SH: signatures must be in key order
    ds = [d + 1, d + 2, d + 3]
    Ps = [secp.ser(secp.pub(x)) for x in ds]
    redeem = b'\x52' + b''.join(push(p) for p in Ps) + b'\x53\xae'
    mspk = b'\xa9\x14' + hash160(redeem) + b'\x87'
    h = sighash_legacy(tx, 0, redeem, 1)
    sigs = []
    for x in ds:
        r, s = secp.ecdsa_sign_raw(x, int.from_bytes(h, 'big'), secp.rfc6979_k(x, h))
        sigs.append(secp.der_encode(r, min(s, secp.N - s)) + b'\x01')
    ok = b'\x00' + push(sigs[0]) + push(sigs[2]) + push(redeem)
    assert verify_script(ok, mspk, [], TxChecker(tx, 0, 0))
    bad = b'\x00' + push(sigs[2]) + push(sigs[0]) + push(redeem)
    assert not verify_script(bad, mspk, [], TxChecker(tx, 0, 0))
    one = b'\x00' + push(sigs[0]) + push(redeem)
    assert not verify_script(one, mspk, [], TxChecker(tx, 0, 0))
    dup = b'\x00' + push(sigs[0]) + push(sigs[0]) + push(redeem)
    assert not verify_script(dup, mspk, [], TxChecker(tx, 0, 0))
    nd = b'\x51' + push(sigs[0]) + push(sigs[1]) + push(redeem)
    assert not verify_script(nd, mspk, [], TxChecker(tx, 0, 0))        # NULLDUMMY
