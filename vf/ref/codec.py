"""Base58Check, Bech32/Bech32m, CompactSize, script numbers, pushes - from the specifications."""
import hashlib

B58 = '123456789ABCDEFGHJKLMNPQRSTUVWXYZabcdefghijkmnopqrstuvwxyz'
B58I = {c: i for i, c in enumerate(B58)}


def sha256(b):
    return hashlib.sha256(b).digest()


def dsha256(b):
    return hashlib.sha256(hashlib.sha256(b).digest()).digest()


def ripemd160(b):
    from Crypto.Hash import RIPEMD160
    return RIPEMD160.new(b).digest()


def hash160(b):
    return ripemd160(sha256(b))


def b58encode(b):
    n = int.from_bytes(b, 'big')
    out = ''
    while n:
        n, r = divmod(n, 58)
        out = B58[r] + out
    z = len(b) - len(b.lstrip(b'\0'))
    return '1' * z + out


def b58decode(s):
    """bytes, or None if a character is outside the alphabet. Canonical: leading '1's <-> zero bytes."""
    n = 0
    for c in s:
        if c not in B58I:
            return None
        n = n * 58 + B58I[c]
    z = len(s) - len(s.lstrip('1'))
    body = n.to_bytes((n.bit_length() + 7) // 8, 'big') if n else b''
    return b'\0' * z + body


def b58check_encode(payload):
    return b58encode(payload + dsha256(payload)[:4])


def b58check_decode(s):
    """payload (version + data) if s is a valid Base58Check string, else None."""
    if not isinstance(s, str) or not s:
        return None
    raw = b58decode(s)
    if raw is None or len(raw) < 5:
        return None
    if dsha256(raw[:-4])[:4] != raw[-4:]:
        return None
    return raw[:-4]


# ----------------------------------------------------------------------------- bech32
CHARSET = 'qpzry9x8gf2tvdw0s3jn54khce6mua7l'
BECH32_CONST = 1
BECH32M_CONST = 0x2bc830a3


def _polymod(values):
    gen = [0x3b6a57b2, 0x26508e6d, 0x1ea119fa, 0x3d4233dd, 0x2a1462b3]
    chk = 1
    for v in values:
        b = chk >> 25
        chk = (chk & 0x1ffffff) << 5 ^ v
        for i in range(5):
            chk ^= gen[i] if ((b >> i) & 1) else 0
    return chk


def _hrp_expand(hrp):
    return [ord(x) >> 5 for x in hrp] + [0] + [ord(x) & 31 for x in hrp]


def bech32_encode(hrp, data, const):
    values = _hrp_expand(hrp) + list(data)
    pm = _polymod(values + [0] * 6) ^ const
    chk = [(pm >> 5 * (5 - i)) & 31 for i in range(6)]
    return hrp + '1' + ''.join(CHARSET[d] for d in list(data) + chk)


def bech32_decode(bech):
    """(hrp, data5, const) or None - BIP173 reference decoder."""
    if not isinstance(bech, str):
        return None
    if any(ord(x) < 33 or ord(x) > 126 for x in bech):
        return None
    if bech.lower() != bech and bech.upper() != bech:
        return None
    bech = bech.lower()
    pos = bech.rfind('1')
    if pos < 1 or pos + 7 > len(bech) or len(bech) > 90:
        return None
    if not all(x in CHARSET for x in bech[pos + 1:]):
        return None
    hrp = bech[:pos]
    data = [CHARSET.find(x) for x in bech[pos + 1:]]
    c = _polymod(_hrp_expand(hrp) + data)
    if c == BECH32_CONST:
        const = BECH32_CONST
    elif c == BECH32M_CONST:
        const = BECH32M_CONST
    else:
        return None
    return hrp, data[:-6], const


def convertbits(data, frombits, tobits, pad=True):
    acc = 0
    bits = 0
    ret = []
    maxv = (1 << tobits) - 1
    max_acc = (1 << (frombits + tobits - 1)) - 1
    for value in data:
        if value < 0 or (value >> frombits):
            return None
        acc = ((acc << frombits) | value) & max_acc
        bits += frombits
        while bits >= tobits:
            bits -= tobits
            ret.append((acc >> bits) & maxv)
    if pad:
        if bits:
            ret.append((acc << (tobits - bits)) & maxv)
    elif bits >= frombits or ((acc << (tobits - bits)) & maxv):
        return None
    return ret


def segwit_encode(hrp, witver, prog):
    const = BECH32_CONST if witver == 0 else BECH32M_CONST
    return bech32_encode(hrp, [witver] + convertbits(prog, 8, 5), const)


def segwit_decode(addr):
    """(hrp, witver, program bytes) for a valid BIP173/BIP350 segwit address, else None."""
    d = bech32_decode(addr)
    if d is None:
        return None
    hrp, data, const = d
    if not data:
        return None
    prog = convertbits(data[1:], 5, 8, False)
    if prog is None or len(prog) < 2 or len(prog) > 40:
        return None
    if data[0] > 16:
        return None
    if data[0] == 0 and len(prog) not in (20, 32):
        return None
    if (data[0] == 0) != (const == BECH32_CONST):
        return None
    return hrp, data[0], bytes(prog)


# ------------------------------------------------------------------------ CompactSize
def cs_encode(n):
    if n < 0 or n > 0xffffffffffffffff:
        raise ValueError
    if n < 0xfd:
        return bytes([n])
    if n <= 0xffff:
        return b'\xfd' + n.to_bytes(2, 'little')
    if n <= 0xffffffff:
        return b'\xfe' + n.to_bytes(4, 'little')
    return b'\xff' + n.to_bytes(8, 'little')


def cs_decode(b, pos=0):
    """(value, size) read at pos (non-minimal encodings are read as they are, like the wire parser)."""
    f = b[pos]
    if f < 0xfd:
        return f, 1
    sz = {0xfd: 2, 0xfe: 4, 0xff: 8}[f]
    if len(b) < pos + 1 + sz:
        raise ValueError('short')
    return int.from_bytes(b[pos + 1:pos + 1 + sz], 'little'), 1 + sz


# --------------------------------------------------------------------- script numbers
def num_encode(n):
    """CScriptNum::serialize"""
    if n == 0:
        return b''
    neg = n < 0
    a = abs(n)
    out = bytearray()
    while a:
        out.append(a & 0xff)
        a >>= 8
    if out[-1] & 0x80:
        out.append(0x80 if neg else 0)
    elif neg:
        out[-1] |= 0x80
    return bytes(out)


def num_decode(b):
    """CScriptNum set_vch (no size/minimality enforcement)."""
    if not b:
        return 0
    v = int.from_bytes(b, 'little')
    if b[-1] & 0x80:
        v &= ~(0x80 << (8 * (len(b) - 1)))
        return -v
    return v


def cast_to_bool(b):
    for i, c in enumerate(b):
        if c != 0:
            if i == len(b) - 1 and c == 0x80:
                return False
            return True
    return False


# ------------------------------------------------------------------------------ pushes
def push(data):
    """Shortest push opcode for the length (what nodes relay / what Core's CScript << emits)."""
    n = len(data)
    if n < 0x4c:
        return bytes([n]) + data
    if n <= 0xff:
        return b'\x4c' + bytes([n]) + data
    if n <= 0xffff:
        return b'\x4d' + n.to_bytes(2, 'little') + data
    return b'\x4e' + n.to_bytes(4, 'little') + data


def script_tokens(script):
    """[(opcode, data or None)] per GetScriptOp; raises ValueError on a truncated push."""
    out = []
    i = 0
    n = len(script)
    while i < n:
        op = script[i]
        i += 1
        if op <= 0x4e and op >= 1:
            if op < 0x4c:
                ln = op
            elif op == 0x4c:
                if i + 1 > n:
                    raise ValueError('trunc')
                ln = script[i]
                i += 1
            elif op == 0x4d:
                if i + 2 > n:
                    raise ValueError('trunc')
                ln = int.from_bytes(script[i:i + 2], 'little')
                i += 2
            else:
                if i + 4 > n:
                    raise ValueError('trunc')
                ln = int.from_bytes(script[i:i + 4], 'little')
                i += 4
            if i + ln > n:
                raise ValueError('trunc')
            out.append((op, script[i:i + ln]))
            i += ln
        elif op == 0:
            out.append((0, b''))
        else:
            out.append((op, None))
    return out


def selftest():
    assert b58encode(b'\0\0\x01') == '112'
    assert b58decode('112') == b'\0\0\x01'
    a = b58check_encode(b'\0' + bytes(20))
    assert a == '1111111111111111111114oLvT2', a
    assert b58check_decode(a) == b'\0' + bytes(20)
    assert b58check_decode(a[1:]) is None
    assert b58check_decode('1BvBMSEYstWetqTFn5Au4m4GFg7xJaNVN2') is not None
    assert b58check_decode('1BvBMSEYstWetqTFn5Au4m4GFg7xJaNVN3') is None
    # BIP173 / BIP350 vectors
    valid = [
        ('BC1QW508D6QEJXTDG4Y5R3ZARVARY0C5XW7KV8F3T4', '0014751e76e8199196d454941c45d1b3a323f1433bd6'),
        ('tb1qrp33g0q5c5txsp9arysrx4k6zdkfs4nce4xj0gdcccefvpysxf3q0sl5k7',
         '00201863143c14c5166804bd19203356da136c985678cd4d27a1b8c6329604903262'),
        ('bc1pw508d6qejxtdg4y5r3zarvary0c5xw7kw508d6qejxtdg4y5r3zarvary0c5xw7kt5nd6y',
         '5128751e76e8199196d454941c45d1b3a323f1433bd6751e76e8199196d454941c45d1b3a323f1433bd6'),
        ('BC1SW50QGDZ25J', '6002751e'),
        ('bc1zw508d6qejxtdg4y5r3zarvaryvaxxpcs', '5210751e76e8199196d454941c45d1b3a323'),
        ('tb1qqqqqp399et2xygdj5xreqhjjvcmzhxw4aywxecjdzew6hylgvsesrxh6hy',
         '0020000000c4a5cad46221b2a187905e5266362b99d5e91c6ce24d165dab93e86433'),
        ('tb1pqqqqp399et2xygdj5xreqhjjvcmzhxw4aywxecjdzew6hylgvsesf3hn0c',
         '5120000000c4a5cad46221b2a187905e5266362b99d5e91c6ce24d165dab93e86433'),
        ('bc1p0xlxvlhemja6c4dqv22uapctqupfhlxm9h8z3k2e72q4k9hcz7vqzk5jj0',
         '512079be667ef9dcbbac55a06295ce870b07029bfcdb2dce28d959f2815b16f81798'),
    ]
    for addr, spk in valid:
        d = segwit_decode(addr)
        assert d is not None, addr
        hrp, v, prog = d
        s = bytes([v + 0x50 if v else 0, len(prog)]) + prog
        assert s.hex() == spk, addr
        assert segwit_encode(hrp, v, prog) == addr.lower()
    invalid = [
        'tc1qw508d6qejxtdg4y5r3zarvary0c5xw7kg3g4ty_',
        'bc1qw508d6qejxtdg4y5r3zarvary0c5xw7kv8f3t5',
        'BC13W50QGDZ25J'.replace('13', '130'),
        'bc1rw5uspcuh', 'bc10w508d6qejxtdg4y5r3zarvary0c5xw7kw508d6qejxtdg4y5r3zarvary0c5xw7kw5rljs90',
        'BC1QR508D6QEJXTDG4Y5R3ZARVARYV98GJ9P',
        'tb1qrp33g0q5c5txsp9arysrx4k6zdkfs4nce4xj0gdcccefvpysxf3q0sL5k7',
        'bc1zw508d6qejxtdg4y5r3zarvaryvqyzf3du', 'tb1qrp33g0q5c5txsp9arysrx4k6zdkfs4nce4xj0gdcccefvpysxf3pjxtptv',
        'bc1gmk9yu',
        'bc1p0xlxvlhemja6c4dqv22uapctqupfhlxm9h8z3k2e72q4k9hcz7vqh2y7hd',
        'tb1z0xlxvlhemja6c4dqv22uapctqupfhlxm9h8z3k2e72q4k9hcz7vqglt7rf',
        'BC1S0XLXVLHEMJA6C4DQV22UAPCTQUPFHLXM9H8Z3K2E72Q4K9HCZ7VQ54WELL',
        'bc1qw508d6qejxtdg4y5r3zarvary0c5xw7kemeawh',
        'bc1p38j9r5y49hruaue7wxjce0updqjuyyx0kh56v8s25huc6995vvpql3jow4',
        'bc1pw5dgrnzv', 'bc1p0xlxvlhemja6c4dqv22uapctqupfhlxm9h8z3k2e72q4k9hcz7v8n0nx0muaewav253zgeav',
        'BC1QR508D6QEJXTDG4Y5R3ZARVARYV98GJ9P',
        'tb1p0xlxvlhemja6c4dqv22uapctqupfhlxm9h8z3k2e72q4k9hcz7vq47Zagq',
        'bc1p0xlxvlhemja6c4dqv22uapctqupfhlxm9h8z3k2e72q4k9hcz7v07qwwzcrf',
        'tb1p0xlxvlhemja6c4dqv22uapctqupfhlxm9h8z3k2e72q4k9hcz7vpggkg4j',
    ]
    for addr in invalid:
        assert segwit_decode(addr) is None, addr
    for n, e in [(0, '00'), (0xfc, 'fc'), (0xfd, 'fdfd00'), (0xffff, 'fdffff'), (0x10000, 'fe00000100'),
                 (0xffffffff, 'feffffffff'), (0x100000000, 'ff0000000001000000')]:
        assert cs_encode(n).hex() == e
        assert cs_decode(bytes.fromhex(e)) == (n, len(e) // 2)
    for n, e in [(0, ''), (1, '01'), (-1, '81'), (127, '7f'), (128, '8000'), (-128, '8080'), (255, 'ff00'),
                 (256, '0001'), (-255, 'ff80'), (32767, 'ff7f'), (32768, '008000'), (-32768, '008080'),
                 (2147483647, 'ffffff7f'), (-2147483647, 'ffffffff')]:
        assert num_encode(n).hex() == e, n
        assert num_decode(bytes.fromhex(e)) == n
    assert num_decode(b'\x80') == 0 and num_decode(b'\x00\x80') == 0
    assert not cast_to_bool(b'') and not cast_to_bool(b'\0\0') and not cast_to_bool(b'\0\x80')
    assert cast_to_bool(b'\x80\0') and cast_to_bool(b'\1')
    assert push(b'a' * 75)[0] == 75 and push(b'a' * 76)[:2] == b'\x4c\x4c'
    assert push(b'a' * 256)[:3] == b'\x4d\x00\x01'
    assert script_tokens(b'\x00\x51\x02ab\x4c\x01z') == [(0, b''), (0x51, None), (2, b'ab'), (0x4c, b'z')]
