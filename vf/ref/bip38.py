"""BIP38 reference (from the specification): non-EC-multiplied and EC-multiplied modes."""
import hashlib
import json
import os
import unicodedata

from Crypto.Cipher import AES

from . import secp
from .codec import b58check_encode, b58check_decode, dsha256, hash160


def _scrypt(pw, salt, n, r, p, ln):
    return hashlib.scrypt(pw, salt=salt, n=n, r=r, p=p, dklen=ln, maxmem=64 * 1024 * 1024)


def _norm(pw):
    return unicodedata.normalize('NFC', pw).encode('utf8') if isinstance(pw, str) else pw


def _xor(a, b):
    return bytes(x ^ y for x, y in zip(a, b))


def _addr(pt, compressed, ver=b'\x00'):
    return b58check_encode(ver + hash160(secp.ser(pt, compressed)))


def encrypt(secret_int, compressed, passphrase, ver=b'\x00'):
    addr = _addr(secp.pub(secret_int), compressed, ver)
    ah = dsha256(addr.encode())[:4]
    d = _scrypt(_norm(passphrase), ah, 16384, 8, 8, 64)
    dh1, dh2 = d[:32], d[32:]
    aes = AES.new(dh2, AES.MODE_ECB)
    sb = secret_int.to_bytes(32, 'big')
    e1 = aes.encrypt(_xor(sb[:16], dh1[:16]))
    e2 = aes.encrypt(_xor(sb[16:], dh1[16:]))
    flag = bytes([0xe0 if compressed else 0xc0])
    return b58check_encode(b'\x01\x42' + flag + ah + e1 + e2)


def decrypt(enc, passphrase, ver=b'\x00'):
    """(secret_int, compressed) or None (bad string / wrong passphrase)."""
    p = b58check_decode(enc)
    if p is None or len(p) != 39 or p[0] != 1:
        return None
    flag = p[2]
    if p[1] == 0x42:
        if flag & 0xc0 != 0xc0:
            return None
        compressed = bool(flag & 0x20)
        ah = p[3:7]
        d = _scrypt(_norm(passphrase), ah, 16384, 8, 8, 64)
        dh1, dh2 = d[:32], d[32:]
        aes = AES.new(dh2, AES.MODE_ECB)
        sb = _xor(aes.decrypt(p[7:23]), dh1[:16]) + _xor(aes.decrypt(p[23:39]), dh1[16:])
        k = int.from_bytes(sb, 'big')
        if not 1 <= k < secp.N:
            return None
        if dsha256(_addr(secp.pub(k), compressed, ver).encode())[:4] != ah:
            return None
        return k, compressed
    if p[1] == 0x43:
        compressed = bool(flag & 0x20)
        has_lot = bool(flag & 0x04)
        ah = p[3:7]
        ownerentropy = p[7:15]
        ownersalt = ownerentropy[:4] if has_lot else ownerentropy
        e1h1 = p[15:23]
        e2 = p[23:39]
        pre = _scrypt(_norm(passphrase), ownersalt, 16384, 8, 8, 32)
        passfactor = int.from_bytes(dsha256(pre + ownerentropy) if has_lot else pre, 'big')
        if not 1 <= passfactor < secp.N:
            return None
        passpoint = secp.ser(secp.pub(passfactor), True)
        d = _scrypt(passpoint, ah + ownerentropy, 1024, 1, 1, 64)
        dh1, dh2 = d[:32], d[32:]
        aes = AES.new(dh2, AES.MODE_ECB)
        t2 = _xor(aes.decrypt(e2), dh1[16:])
        e1h2 = t2[:8]
        seedb2 = t2[8:]
        t1 = _xor(aes.decrypt(e1h1 + e1h2), dh1[:16])
        seedb = t1 + seedb2
        factorb = int.from_bytes(dsha256(seedb), 'big')
        k = passfactor * factorb % secp.N
        if not 1 <= k < secp.N:
            return None
        if dsha256(_addr(secp.pub(k), compressed, ver).encode())[:4] != ah:
            return None
        return k, compressed
    return None


def intermediate(passphrase, ownersalt, lot=None, seq=None):
    if lot is not None:
        assert len(ownersalt) == 4
        ownerentropy = ownersalt + (lot * 4096 + seq).to_bytes(4, 'big')
        pre = _scrypt(_norm(passphrase), ownersalt, 16384, 8, 8, 32)
        passfactor = int.from_bytes(dsha256(pre + ownerentropy), 'big')
        magic = bytes.fromhex('2ce9b3e1ff39e251')
    else:
        assert len(ownersalt) == 8
        ownerentropy = ownersalt
        passfactor = int.from_bytes(_scrypt(_norm(passphrase), ownersalt, 16384, 8, 8, 32), 'big')
        magic = bytes.fromhex('2ce9b3e1ff39e253')
    passpoint = secp.ser(secp.pub(passfactor), True)
    return b58check_encode(magic + ownerentropy + passpoint)


def selftest():
    with open(os.path.join(os.path.dirname(__file__), 'vectors', 'bip38_protected_key_tests.json')) as f:
        vec = json.load(f)['valid']
    n = 0
    for v in vec:
        wif = b58check_decode(v['wif'])
        compressed = len(wif) == 34
        k = int.from_bytes(wif[1:33], 'big')
        r = decrypt(v['bip38'], v['passphrase'])
        assert r == (k, compressed), v['description']
        if v.get('test_encrypt', True) and 'passphrase_code' not in v:
            assert encrypt(k, compressed, v['passphrase']) == v['bip38'], v['description']
        if 'passphrase_code' in v and 'lot' not in v['description'].replace('no lot', ''):
            pass
        assert decrypt(v['bip38'], v['passphrase'] + 'x') is None
        n += 1
    assert n >= 6
    # unicode vector of the BIP
    pw = 'ϓ\u0000\U00010400\U0001F4A9'
    r = decrypt('6PRW5o9FLp4gJDDVqJQKJFTpMvdsSGJxMYHtHaQBF3ooa8mwD69bapcDQn', pw)
    assert r is not None and b58check_encode(b'\x80' + r[0].to_bytes(32, 'big')) == '5Jajm8eQ22H3pGWLEVCXyvND8dQZhiQhoLJNKjYXk9roUFTMSZ4'
    # intermediate code vector (no lot/sequence #1)
    # passphrase TestingOneTwoThree -> passphrasepxFy57B9v8HtUsszJYKReoNDV6VHjUSGt8EVJmux9n1J3Ltf1gRxyDGXqnf9qm
    code = 'passphrasepxFy57B9v8HtUsszJYKReoNDV6VHjUSGt8EVJmux9n1J3Ltf1gRxyDGXqnf9qm'
    raw = b58check_decode(code)
    assert intermediate('TestingOneTwoThree', raw[8:16]) == code
