"""Common runner: exhaustive enumeration driver, evidence writer, known-finding matcher, replay.

A check module (vf/checks/cXX.py) provides
    ID, LEVEL ('exploration' | 'model_checking'), RULE (str), ASSUMPTIONS (list of str)
    SUBS        dict name -> function(case) -> result dict   (executed in worker processes)
    selftest()  validates the reference/oracle against published vectors; raises on failure
    run(ctx)    enumerates the case space through ctx.pmap / ctx.bfs

A result dict may contain
    devs    list of {'sig': str, 'detail': json}     deviations from the oracle
    nt      list of str | True                       keys of the non-trivial evaluations of this case
    n       int                                      evaluations performed (default 1)
    out     str | list of str                        outcome label(s) (vacuity indicator)
    states  list of str, trans int, traces int       for history exploration
    ret     anything json-able                       returned to run()

Exit status: 0 held / only known findings; 1 VIOLATION; 2 the check itself is broken
(self-test failed, harness exception, non-reproducible deviation).
"""
import argparse
import collections
import hashlib
import importlib
import json
import multiprocessing
import os
import sys
import time
import traceback

from . import env

VERIF = os.path.dirname(os.path.dirname(os.path.abspath(__file__)))


def jhash(obj):
    return hashlib.sha256(json.dumps(obj, sort_keys=True, default=str).encode()).hexdigest()[:20]


class HarnessError(Exception):
    pass


_MOD = None


def _winit(modname):
    global _MOD
    _MOD = importlib.import_module(modname)
    if hasattr(_MOD, 'worker_init'):
        _MOD.worker_init()


def _work(item):
    sub, case = item
    try:
        res = _MOD.SUBS[sub](case)
        if res is None:
            res = {}
        return res
    except BaseException:
        return {'__error__': traceback.format_exc(), '__case__': case}


class Ctx:
    def __init__(self, mod, tier, seed, jobs):
        self.mod = mod
        self.pid = mod.ID
        self.tier = tier
        self.quick = tier == 'quick'
        self.seed = seed
        self.jobs = jobs
        self.t0 = time.time()
        self.evaluations = 0
        self.nontrivial = set()
        self.outcomes = collections.Counter()
        self.sub = collections.OrderedDict()
        self.states = set()
        self.transitions = 0
        self.traces = 0
        self.samples = []
        self.devs = []
        self.caps = []
        self.notes = {}
        self.exhaustive = True
        self._pool = None

    # ------------------------------------------------------------------ pool
    def pool(self):
        if self._pool is None and self.jobs > 1:
            ctx = multiprocessing.get_context('fork')
            self._pool = ctx.Pool(self.jobs, initializer=_winit, initargs=(self.mod.__name__,))
        return self._pool

    def close(self):
        if self._pool is not None:
            self._pool.terminate()
            self._pool.join()
            self._pool = None

    # ------------------------------------------------------------- absorbing
    def _substat(self, sub):
        if sub not in self.sub:
            self.sub[sub] = {'evaluations': 0, 'nontrivial': 0, 'deviations': 0, 'cases': 0}
        return self.sub[sub]

    def absorb(self, sub, case, res):
        if '__error__' in res:
            sys.stdout.flush()
            sys.stderr.write('HARNESS ERROR in %s/%s case=%s\n%s\n' % (
                self.pid, sub, json.dumps(res.get('__case__'), default=str)[:2000], res['__error__']))
            self.close()
            sys.exit(2)
        st = self._substat(sub)
        n = res.get('n', 1)
        self.evaluations += n
        st['evaluations'] += n
        st['cases'] += 1
        nt = res.get('nt', True)
        if nt is True:
            nt = [jhash([sub, case])]
        elif not nt:
            nt = []
        for k in nt:
            k = sub + ':' + str(k)
            if k not in self.nontrivial:
                self.nontrivial.add(k)
                st['nontrivial'] += 1
        out = res.get('out')
        if out is not None:
            if isinstance(out, dict):
                for o, c in out.items():
                    self.outcomes[sub + ':' + str(o)] += c
            else:
                for o in ([out] if isinstance(out, str) else out):
                    self.outcomes[sub + ':' + str(o)] += 1
        for s in res.get('states', ()):
            self.states.add(s)
        self.transitions += res.get('trans', 0)
        self.traces += res.get('traces', 0)
        for d in res.get('devs', ()):
            st['deviations'] += 1
            self.devs.append({'sub': sub, 'case': case, 'sig': d['sig'], 'detail': d.get('detail')})
        if st['cases'] <= 2:
            self.samples.append({'sub': sub, 'case': _short(case)})

    def pmap(self, sub, cases, chunk=None):
        """Run SUBS[sub] on every case (all of them; no sampling), in canonical order."""
        if not isinstance(cases, list):
            cases = list(cases)
        rets = []
        if not cases:
            return rets
        pool = self.pool()
        if pool is None:
            _winit(self.mod.__name__) if _MOD is None else None
            it = (_work((sub, c)) for c in cases)
        else:
            if chunk is None:
                chunk = max(1, min(256, len(cases) // (self.jobs * 8) or 1))
            it = pool.imap(_work, [(sub, c) for c in cases], chunksize=chunk)
        for case, res in zip(cases, it):
            self.absorb(sub, case, res)
            rets.append(res.get('ret'))
        self._substat(sub)['last_case'] = _short(cases[-1])
        return rets

    def bfs(self, sub, cfg, depth, max_states=None):
        """Explicit-state breadth-first search over event histories for one configuration (see bfs_multi)."""
        return self.bfs_multi(sub, [(cfg, depth)], max_states=max_states)

    def bfs_multi(self, sub, cfg_depths, max_states=None):
        """Explicit-state breadth-first search over event histories, several configurations level by level.

        SUBS[sub]({'cfg': cfg, 'hist': [...]}) builds a fresh real object, replays hist,
        evaluates the invariants in the reached state and returns
        ret={'state': canonical-json, 'enabled': [events]}.  A state already seen (per configuration) is not
        expanded again (its futures are identical by the canonicalisation argument of the
        check).  Every executed history is an implementation trace.  The frontiers of all configurations
        are executed together so that the worker pool stays busy.
        """
        seen = [set() for _ in cfg_depths]
        frontier = [[[]] for _ in cfg_depths]
        counts = [0 for _ in cfg_depths]
        stopped = [False for _ in cfg_depths]
        level = 0
        while any(frontier):
            cases = []
            owner = []
            for ci, (cfg, depth) in enumerate(cfg_depths):
                if level > depth or stopped[ci]:
                    frontier[ci] = []
                    continue
                for h in frontier[ci]:
                    cases.append({'cfg': cfg, 'hist': h})
                    owner.append(ci)
            if not cases:
                break
            rets = self.pmap(sub, cases)
            nxt = [[] for _ in cfg_depths]
            for case, ci, r in zip(cases, owner, rets):
                if r is None:
                    continue
                h = case['hist']
                self.traces += 1
                self.transitions += 1 if h else 0
                k = jhash([cfg_depths[ci][0], r['state']])
                if k in seen[ci]:
                    continue
                seen[ci].add(k)
                self.states.add(k)
                counts[ci] += 1
                if level < cfg_depths[ci][1]:
                    for ev in r['enabled']:
                        nxt[ci].append(h + [ev])
            for ci in range(len(cfg_depths)):
                if max_states and counts[ci] > max_states and not stopped[ci]:
                    self.caps.append('bfs %s cfg#%d stopped at depth %d: max_states=%d' % (sub, ci, level, max_states))
                    self.exhaustive = False
                    stopped[ci] = True
            frontier = nxt
            level += 1
        return sum(counts)

    def note(self, key, value):
        self.notes[key] = value

    def cap(self, text):
        self.caps.append(text)
        self.exhaustive = False


def _short(case, limit=600):
    s = json.dumps(case, default=str)
    if len(s) <= limit:
        return case
    return s[:limit] + '...'


# --------------------------------------------------------------------- known findings
def load_known(pid):
    """Open known findings of this property: known_findings.json (+ known_findings.d/<ID>.json drafts)."""
    out = {}
    for path in (os.path.join(VERIF, 'known_findings.json'),
                 os.path.join(VERIF, 'known_findings.d', pid + '.json')):
        if not os.path.exists(path):
            continue
        with open(path) as f:
            data = json.load(f)
        for e in data.get('findings', []):
            if e.get('property') == pid and e.get('status') == 'open':
                out[e['sig']] = e
    return out


def finish(ctx):
    mod = ctx.mod
    pid = ctx.pid
    known = load_known(pid)
    by_sig = collections.OrderedDict()
    for d in ctx.devs:
        by_sig.setdefault(d['sig'], []).append(d)
    violations = 0
    known_hits = 0
    rdir = os.path.join(VERIF, 'replays', pid)
    lines = []
    for sig, ds in by_sig.items():
        if sig in known:
            known_hits += 1
            lines.append('KNOWN-FINDING: property=%s %s [%s; %d occurrence(s) in this run]' % (
                pid, known[sig]['what'], sig, len(ds)))
            continue
        first = ds[0]
        # replay the smallest counterexample twice from a fresh state before trusting it
        sigs = []
        for _ in range(2):
            r = _work((first['sub'], first['case'])) if _MOD is not None else None
            if r is None:
                _winit(mod.__name__)
                r = _work((first['sub'], first['case']))
            if '__error__' in r:
                sys.stderr.write('HARNESS ERROR while replaying %s\n%s\n' % (sig, r['__error__']))
                ctx.close()
                sys.exit(2)
            sigs.append(sorted(x['sig'] for x in r.get('devs', ())))
        if sigs[0] != sigs[1] or sig not in sigs[0]:
            sys.stderr.write('NON-REPRODUCIBLE deviation %s for case %s: replays gave %s\n' % (
                sig, json.dumps(first['case'], default=str)[:1000], sigs))
            ctx.close()
            sys.exit(2)
        violations += 1
        os.makedirs(rdir, exist_ok=True)
        rec = {'property': pid, 'sub': first['sub'], 'case': first['case'], 'sig': sig,
               'detail': first['detail'], 'occurrences_in_run': len(ds),
               'replay_cmd': '/venv/bin/python /verif/check.py %s --replay <this file>' % pid}
        path = os.path.join(rdir, jhash([pid, sig, first['case']]) + '.json')
        with open(path, 'w') as f:
            json.dump(rec, f, indent=1, default=str)
        if violations <= 25:
            lines.append('VIOLATION property=%s replay=%s' % (pid, path))
            lines.append('  sig=%s occurrences=%d detail=%s' % (
                sig, len(ds), json.dumps(first['detail'], default=str)[:700]))
    for sig, e in known.items():
        if sig not in by_sig:
            lines.append('note: known finding not exercised in this run: %s' % sig)
    wall = time.time() - ctx.t0
    cov = {
        'evaluations': ctx.evaluations,
        'distinct_nontrivial': len(ctx.nontrivial),
        'rule': mod.RULE,
        'samples': ctx.samples[:12],
        'exhaustive': bool(ctx.exhaustive),
        'subspaces': ctx.sub,
        'distinct_outcomes': len(ctx.outcomes),
        'outcomes': dict(sorted(ctx.outcomes.items())[:80]),
        'caps_hit': ctx.caps,
        'deviation_signatures': {s: len(d) for s, d in by_sig.items()},
        'known_findings_matched': known_hits,
        'jobs': ctx.jobs,
    }
    if mod.LEVEL == 'model_checking':
        cov['states'] = len(ctx.states)
        cov['transitions'] = ctx.transitions
        cov['traces_validated_against_impl'] = ctx.traces
    cov.update(ctx.notes)
    ev = {'property_id': pid, 'tier': ctx.tier, 'seed': ctx.seed, 'level': mod.LEVEL,
          'coverage': cov, 'assumptions': list(mod.ASSUMPTIONS), 'wall_s': round(wall, 2),
          'violations': violations}
    os.makedirs(os.path.join(VERIF, 'evidence'), exist_ok=True)
    tmp = os.path.join(VERIF, 'evidence', pid + '.json.tmp')
    with open(tmp, 'w') as f:
        json.dump(ev, f, indent=1, default=str)
        f.write('\n')
    os.replace(tmp, os.path.join(VERIF, 'evidence', pid + '.json'))
    for l in lines:
        print(l)
    extra = ''
    if mod.LEVEL == 'model_checking':
        extra = ' states=%d transitions=%d traces=%d' % (len(ctx.states), ctx.transitions, ctx.traces)
    print('%s tier=%s seed=%d evaluations=%d distinct_nontrivial=%d outcomes=%d%s exhaustive=%s '
          'known=%d violations=%d wall=%.1fs' % (
              pid, ctx.tier, ctx.seed, ctx.evaluations, len(ctx.nontrivial), len(ctx.outcomes),
              extra, ctx.exhaustive, known_hits, violations, wall))
    return 1 if violations else 0


def replay(mod, path):
    with open(path) as f:
        rec = json.load(f)
    _winit(mod.__name__)
    r = _work((rec['sub'], rec['case']))
    if '__error__' in r:
        sys.stderr.write(r['__error__'])
        return 2
    sigs = [d['sig'] for d in r.get('devs', ())]
    known = load_known(mod.ID)
    bad = [s for s in sigs if s not in known]
    for d in r.get('devs', ()):
        print('deviation sig=%s detail=%s' % (d['sig'], json.dumps(d.get('detail'), default=str)[:1500]))
    if bad:
        print('VIOLATION property=%s replay=%s' % (mod.ID, path))
        return 1
    print('%s replay: no (unknown) deviation reproduced' % mod.ID)
    return 0


def main(argv=None):
    ap = argparse.ArgumentParser()
    ap.add_argument('prop')
    ap.add_argument('--tier', default=os.environ.get('VERIF_TIER') or 'quick',
                    choices=['quick', 'thorough'])
    ap.add_argument('--replay')
    ap.add_argument('--jobs', type=int, default=int(os.environ.get('VERIF_JOBS', '0')) or
                    min(16, os.cpu_count() or 1))
    ap.add_argument('--only', help='comma separated sub-space names (debugging; evidence is '
                    'still written but marked non-exhaustive)')
    a = ap.parse_args(argv)
    try:
        seed = int(os.environ.get('VERIF_SEED', '0') or 0)
    except ValueError:
        seed = 0
    env.setup()
    sys.path.insert(0, VERIF)
    mod = importlib.import_module('vf.checks.' + a.prop.lower())
    if a.replay:
        rc = replay(mod, a.replay)
        sys.stdout.flush()
        return rc
    try:
        mod.selftest()
    except Exception:
        sys.stderr.write('SELF-TEST FAILED for %s (the check is broken, this is not a verdict on '
                         'the code)\n%s\n' % (mod.ID, traceback.format_exc()))
        return 2
    ctx = Ctx(mod, a.tier, seed, a.jobs)
    ctx.only = set(a.only.split(',')) if a.only else None
    if ctx.only:
        ctx.cap('--only %s' % a.only)
    try:
        mod.run(ctx)
        rc = finish(ctx)
    finally:
        ctx.close()
    sys.stdout.flush()
    return rc
