#!/venv/bin/python
"""Entry point: /venv/bin/python /verif/check.py <ID> --tier quick|thorough [--replay FILE]"""
import os
import sys

if os.environ.get('PYTHONHASHSEED') != '0':
    os.environ['PYTHONHASHSEED'] = '0'
    os.execv(sys.executable, [sys.executable] + sys.argv)

sys.path.insert(0, os.path.dirname(os.path.abspath(__file__)))
# VERIF_REPO=<dir> runs the same checks against another checkout (a scratch worktree holding a
# candidate change); registered commands never set it and so always execute /repo's working tree.
if os.environ.get('VERIF_REPO'):
    sys.path.insert(0, os.environ['VERIF_REPO'])
sys.dont_write_bytecode = True

from vf import runner  # noqa: E402

if __name__ == '__main__':
    sys.exit(runner.main())
