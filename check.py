#!/venv/bin/python
"""Entry point: /venv/bin/python /verif/check.py <ID> --tier quick|thorough [--replay FILE]"""
import os
import sys

if os.environ.get('PYTHONHASHSEED') != '0':
    os.environ['PYTHONHASHSEED'] = '0'
    os.execv(sys.executable, [sys.executable] + sys.argv)

sys.path.insert(0, os.path.dirname(os.path.abspath(__file__)))
sys.dont_write_bytecode = True

from vf import runner  # noqa: E402

if __name__ == '__main__':
    sys.exit(runner.main())
